// Minimal JSON value + writer (the driver has zero crate dependencies by design).
use std::fmt;

pub enum J {
    Null,
    Bool(bool),
    Num(i128),
    Float(f64),
    Str(String),
    Arr(Vec<J>),
    Obj(Vec<(String, J)>),
}

impl J {
    pub fn obj() -> J {
        J::Obj(Vec::new())
    }
    pub fn s(s: &str) -> J {
        J::Str(s.to_string())
    }
    pub fn n(n: i128) -> J {
        J::Num(n)
    }
    pub fn b(b: bool) -> J {
        J::Bool(b)
    }
    pub fn f(f: f64) -> J {
        J::Float(f)
    }
    pub fn put(&mut self, k: &str, v: J) {
        if let J::Obj(kvs) = self {
            kvs.push((k.to_string(), v));
        }
    }
}

fn esc(s: &str, f: &mut fmt::Formatter) -> fmt::Result {
    f.write_str("\"")?;
    for c in s.chars() {
        match c {
            '"' => f.write_str("\\\"")?,
            '\\' => f.write_str("\\\\")?,
            '\n' => f.write_str("\\n")?,
            '\r' => f.write_str("\\r")?,
            '\t' => f.write_str("\\t")?,
            c if (c as u32) < 0x20 => write!(f, "\\u{:04x}", c as u32)?,
            c => write!(f, "{}", c)?,
        }
    }
    f.write_str("\"")
}

impl fmt::Display for J {
    fn fmt(&self, f: &mut fmt::Formatter) -> fmt::Result {
        match self {
            J::Null => f.write_str("null"),
            J::Bool(b) => write!(f, "{}", b),
            J::Num(n) => write!(f, "{}", n),
            J::Float(x) => {
                if x.is_finite() {
                    write!(f, "{:?}", x)
                } else {
                    write!(f, "\"{}\"", x)
                }
            }
            J::Str(s) => esc(s, f),
            J::Arr(v) => {
                f.write_str("[")?;
                for (i, x) in v.iter().enumerate() {
                    if i > 0 {
                        f.write_str(",")?;
                    }
                    write!(f, "{}", x)?;
                }
                f.write_str("]")
            }
            J::Obj(kvs) => {
                f.write_str("{")?;
                for (i, (k, v)) in kvs.iter().enumerate() {
                    if i > 0 {
                        f.write_str(",")?;
                    }
                    esc(k, f)?;
                    f.write_str(":")?;
                    write!(f, "{}", v)?;
                }
                f.write_str("}")
            }
        }
    }
}
