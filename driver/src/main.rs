// bl-facts: a rustc_private driver that dumps facts (items, ADTs, MIR) of the crate being
// compiled as one JSON file. It contains NO rules: every verdict is taken by /verif/rules.
//
// Used as RUSTC_WORKSPACE_WRAPPER under `cargo +nightly check`; argv[1] is the real rustc.
// Output: $BL_FACTS_DIR/<crate_name>.<crate_type>.json (one write per process).
#![feature(rustc_private)]
#![allow(clippy::all)]
extern crate rustc_abi;
extern crate rustc_driver;
extern crate rustc_hir;
extern crate rustc_interface;
extern crate rustc_middle;
extern crate rustc_span;

use rustc_driver::Compilation;
use rustc_hir::def::DefKind;
use rustc_hir::def_id::{DefId, LOCAL_CRATE};
use rustc_hir::definitions::DefPathData;
use rustc_interface::interface::Compiler;
use rustc_middle::mir::{
    self, AggregateKind, AssertKind, BinOp, Body, CastKind, Const, ConstValue, Operand, Place,
    ProjectionElem, Rvalue, StatementKind, TerminatorKind, UnOp, VarDebugInfoContents,
};
use rustc_middle::ty::print::{with_no_trimmed_paths, PrintTraitRefExt};
use rustc_middle::ty::{self, Ty, TyCtxt, TypingEnv};
use rustc_span::Span;
use std::fmt::Write as _;

mod json;
use json::J;

struct Cb;

fn want_crate(name: &str) -> bool {
    match std::env::var("BL_FACTS_CRATES") {
        Ok(v) => v.split(',').any(|c| c == name),
        Err(_) => name == "basic",
    }
}

impl rustc_driver::Callbacks for Cb {
    fn after_analysis<'tcx>(&mut self, _c: &Compiler, tcx: TyCtxt<'tcx>) -> Compilation {
        let krate = tcx.crate_name(LOCAL_CRATE).to_string();
        if !want_crate(&krate) {
            return Compilation::Continue;
        }
        let Ok(dir) = std::env::var("BL_FACTS_DIR") else {
            return Compilation::Continue;
        };
        let ctype = tcx
            .crate_types()
            .first()
            .map(|t| format!("{:?}", t).to_lowercase())
            .unwrap_or_else(|| "unknown".into());
        let out = with_no_trimmed_paths!(dump_crate(tcx, &krate, &ctype));
        let path = format!("{}/{}.{}.json", dir, krate, ctype);
        std::fs::write(&path, out.to_string()).expect("write facts");
        Compilation::Continue
    }
}

fn main() {
    let mut args: Vec<String> = std::env::args().collect();
    // RUSTC_WORKSPACE_WRAPPER: argv[1] is the path of the real rustc
    if args.len() > 1 && (args[1].ends_with("rustc") || args[1].contains("/rustc")) {
        args.remove(1);
    }
    rustc_driver::run_compiler(&args, &mut Cb);
}

// ---------------------------------------------------------------------------------------
// naming

fn item_path<'tcx>(tcx: TyCtxt<'tcx>, did: DefId) -> String {
    if !did.is_local() {
        return tcx.def_path_str(did);
    }
    let kind = tcx.def_kind(did);
    if let DefKind::Impl { of_trait } = kind {
        let self_ty = tcx.type_of(did).instantiate_identity().skip_norm_wip();
        if of_trait {
            let tr = tcx.impl_trait_ref(did).instantiate_identity().skip_norm_wip();
            return format!("<{} as {}>", self_ty, tr.print_only_trait_path());
        }
        return format!("{}", self_ty);
    }
    let key = tcx.def_key(did);
    let Some(parent_idx) = key.parent else {
        return String::new(); // crate root
    };
    let parent = DefId { krate: did.krate, index: parent_idx };
    let pp = item_path(tcx, parent);
    let name = match key.disambiguated_data.data {
        DefPathData::Closure => format!("{{closure#{}}}", key.disambiguated_data.disambiguator),
        ref d => match d.get_opt_name() {
            Some(s) => s.to_string(),
            None => format!("{{{:?}#{}}}", d, key.disambiguated_data.disambiguator),
        },
    };
    if pp.is_empty() {
        name
    } else {
        format!("{}::{}", pp, name)
    }
}

fn span_json<'tcx>(tcx: TyCtxt<'tcx>, span: Span) -> J {
    let sm = tcx.sess.source_map();
    let mut macros: Vec<J> = vec![];
    let mut sp = span;
    let mut guard = 0;
    while sp.from_expansion() && guard < 32 {
        let ed = sp.ctxt().outer_expn_data();
        macros.push(J::s(&format!("{}", ed.kind.descr())));
        sp = ed.call_site;
        guard += 1;
    }
    let lo = sm.lookup_char_pos(sp.lo());
    let hi = sm.lookup_char_pos(sp.hi());
    let file = format!("{}", lo.file.name.prefer_local_unconditionally());
    let mut o = J::obj();
    o.put("file", J::s(&file));
    o.put("line", J::n(lo.line as i128));
    o.put("col", J::n(lo.col.0 as i128 + 1));
    o.put("eline", J::n(hi.line as i128));
    o.put("ecol", J::n(hi.col.0 as i128 + 1));
    o.put("exp", J::b(span.from_expansion()));
    if !macros.is_empty() {
        o.put("macros", J::Arr(macros));
    }
    o
}

// ---------------------------------------------------------------------------------------
// crate

fn dump_crate<'tcx>(tcx: TyCtxt<'tcx>, krate: &str, ctype: &str) -> J {
    let mut root = J::obj();
    root.put("crate", J::s(krate));
    root.put("crate_type", J::s(ctype));
    let mut adts = vec![];
    let mut consts = vec![];
    let mut fns = vec![];
    let mut impls = vec![];
    let mut unanalysed = vec![];
    for ldid in tcx.hir_crate_items(()).definitions() {
        let did = ldid.to_def_id();
        match tcx.def_kind(did) {
            DefKind::Struct | DefKind::Enum => adts.push(dump_adt(tcx, did)),
            DefKind::Const { .. } => consts.push(dump_const(tcx, did)),
            DefKind::Impl { of_trait } => {
                let mut o = J::obj();
                o.put("path", J::s(&item_path(tcx, did)));
                o.put("of_trait", J::b(of_trait));
                o.put("span", span_json(tcx, tcx.def_span(did)));
                impls.push(o);
            }
            _ => {}
        }
    }
    for ldid in tcx.mir_keys(()) {
        let did = ldid.to_def_id();
        let kind = tcx.def_kind(did);
        if !matches!(kind, DefKind::Fn | DefKind::AssocFn | DefKind::Closure) {
            continue;
        }
        if !tcx.is_mir_available(did) {
            unanalysed.push(J::s(&item_path(tcx, did)));
            continue;
        }
        fns.push(dump_fn(tcx, did, kind));
    }
    root.put("adts", J::Arr(adts));
    root.put("consts", J::Arr(consts));
    root.put("impls", J::Arr(impls));
    root.put("fns", J::Arr(fns));
    root.put("unanalysed", J::Arr(unanalysed));
    root
}

fn vis_str<'tcx>(tcx: TyCtxt<'tcx>, vis: ty::Visibility<DefId>) -> String {
    match vis {
        ty::Visibility::Public => "pub".into(),
        ty::Visibility::Restricted(m) => {
            let p = item_path(tcx, m);
            if p.is_empty() {
                "crate".into()
            } else {
                format!("in {}", p)
            }
        }
    }
}

fn dump_adt<'tcx>(tcx: TyCtxt<'tcx>, did: DefId) -> J {
    let adt = tcx.adt_def(did);
    let mut o = J::obj();
    o.put("path", J::s(&item_path(tcx, did)));
    o.put("kind", J::s(if adt.is_enum() { "enum" } else { "struct" }));
    o.put("vis", J::s(&vis_str(tcx, tcx.visibility(did))));
    o.put("span", span_json(tcx, tcx.def_span(did)));
    let mut vs = vec![];
    for (idx, v) in adt.variants().iter_enumerated() {
        let mut vo = J::obj();
        vo.put("name", J::s(v.name.as_str()));
        vo.put("idx", J::n(idx.as_u32() as i128));
        if adt.is_enum() {
            let d = adt.discriminant_for_variant(tcx, idx);
            vo.put("discr", J::n(d.val as i128));
        }
        let mut fs = vec![];
        for f in v.fields.iter() {
            let mut fo = J::obj();
            fo.put("name", J::s(f.name.as_str()));
            let fty = tcx.type_of(f.did).instantiate_identity().skip_norm_wip();
            fo.put("ty", J::s(&format!("{}", fty)));
            fo.put("vis", J::s(&vis_str(tcx, f.vis)));
            fs.push(fo);
        }
        vo.put("fields", J::Arr(fs));
        vs.push(vo);
    }
    o.put("variants", J::Arr(vs));
    o
}

fn dump_const<'tcx>(tcx: TyCtxt<'tcx>, did: DefId) -> J {
    let mut o = J::obj();
    o.put("path", J::s(&item_path(tcx, did)));
    let ty = tcx.type_of(did).instantiate_identity().skip_norm_wip();
    o.put("ty", J::s(&format!("{}", ty)));
    o.put("span", span_json(tcx, tcx.def_span(did)));
    if let Ok(val) = tcx.const_eval_poly(did) {
        o.put("val", const_value_json(tcx, val, ty));
    }
    o
}

fn const_value_json<'tcx>(tcx: TyCtxt<'tcx>, val: ConstValue, ty: Ty<'tcx>) -> J {
    let mut o = J::obj();
    match val {
        ConstValue::Scalar(mir::interpret::Scalar::Int(si)) => {
            scalar_int_json(&mut o, si, ty);
        }
        ConstValue::ZeroSized => {
            o.put("zst", J::b(true));
        }
        _ => {}
    }
    let bytes_opt = if matches!(val, ConstValue::Slice { .. }) {
        val.try_get_slice_bytes_for_diagnostics(tcx)
    } else {
        None
    };
    if let Some(bytes) = bytes_opt {
        if ty.peel_refs().is_str() {
            o.put("str", J::s(&String::from_utf8_lossy(bytes)));
        } else {
            o.put("bytes", J::Arr(bytes.iter().map(|b| J::n(*b as i128)).collect()));
        }
    }
    o
}

fn scalar_int_json<'tcx>(o: &mut J, si: ty::ScalarInt, ty: Ty<'tcx>) {
    let size = si.size();
    let bits = si.to_bits(size);
    match ty.kind() {
        ty::Bool => o.put("bool", J::b(bits != 0)),
        ty::Char => {
            o.put("int", J::n(bits as i128));
            if let Some(c) = char::from_u32(bits as u32) {
                o.put("char", J::s(&c.to_string()));
            }
        }
        ty::Int(_) => {
            let v = size.sign_extend(bits) as i128;
            o.put("int", J::n(v));
        }
        ty::Uint(_) => o.put("int", J::n(bits as i128)),
        ty::Float(fty) => {
            let f = match fty.bit_width() {
                32 => f32::from_bits(bits as u32) as f64,
                64 => f64::from_bits(bits as u64),
                _ => f64::NAN,
            };
            o.put("float", J::f(f));
            o.put("bits", J::n(bits as i128));
        }
        _ => o.put("int", J::n(bits as i128)),
    }
}

// ---------------------------------------------------------------------------------------
// functions

fn dump_fn<'tcx>(tcx: TyCtxt<'tcx>, did: DefId, kind: DefKind) -> J {
    let mut o = J::obj();
    o.put("path", J::s(&item_path(tcx, did)));
    o.put("def_kind", J::s(&format!("{:?}", kind)));
    if matches!(kind, DefKind::Fn | DefKind::AssocFn) {
        o.put("vis", J::s(&vis_str(tcx, tcx.visibility(did))));
    }
    if let Some(p) = tcx.opt_parent(did) {
        o.put("parent", J::s(&item_path(tcx, p)));
        if let DefKind::Impl { of_trait } = tcx.def_kind(p) {
            o.put("impl_of_trait", J::b(of_trait));
        }
    }
    o.put("span", span_json(tcx, tcx.def_span(did)));
    let body: &Body<'tcx> = tcx.optimized_mir(did);
    o.put("body_span", span_json(tcx, body.span));
    dump_body(tcx, did, body, &mut o);
    let promoted = tcx.promoted_mir(did);
    let mut ps = vec![];
    for pb in promoted.iter() {
        let mut po = J::obj();
        dump_body(tcx, did, pb, &mut po);
        ps.push(po);
    }
    o.put("promoted", J::Arr(ps));
    o
}

fn dump_body<'tcx>(tcx: TyCtxt<'tcx>, owner: DefId, body: &Body<'tcx>, o: &mut J) {
    let cx = Cx { tcx, body, env: TypingEnv::post_analysis(tcx, owner) };
    o.put("arg_count", J::n(body.arg_count as i128));
    let mut locals = vec![];
    for (_l, decl) in body.local_decls.iter_enumerated() {
        let mut lo = J::obj();
        lo.put("ty", J::s(&format!("{}", decl.ty)));
        locals.push(lo);
    }
    o.put("locals", J::Arr(locals));
    let mut dbg = vec![];
    for vdi in body.var_debug_info.iter() {
        let mut d = J::obj();
        d.put("name", J::s(vdi.name.as_str()));
        match &vdi.value {
            VarDebugInfoContents::Place(p) => d.put("place", cx.place(p)),
            VarDebugInfoContents::Const(c) => d.put("const", cx.constant(&c.const_, c.span)),
        }
        if let Some(a) = vdi.argument_index {
            d.put("arg", J::n(a as i128));
        }
        dbg.push(d);
    }
    o.put("debug", J::Arr(dbg));
    let mut blocks = vec![];
    for (_bb, data) in body.basic_blocks.iter_enumerated() {
        let mut b = J::obj();
        if data.is_cleanup {
            b.put("cleanup", J::b(true));
        }
        let mut stmts = vec![];
        for st in &data.statements {
            if let Some(s) = cx.statement(st) {
                stmts.push(s);
            }
        }
        b.put("stmts", J::Arr(stmts));
        if let Some(t) = &data.terminator {
            b.put("term", cx.terminator(t));
        }
        blocks.push(b);
    }
    o.put("blocks", J::Arr(blocks));
}

struct Cx<'a, 'tcx> {
    tcx: TyCtxt<'tcx>,
    body: &'a Body<'tcx>,
    env: TypingEnv<'tcx>,
}

impl<'a, 'tcx> Cx<'a, 'tcx> {
    fn place(&self, p: &Place<'tcx>) -> J {
        let tcx = self.tcx;
        let mut o = J::obj();
        o.put("local", J::n(p.local.as_u32() as i128));
        let mut s = format!("_{}", p.local.as_u32());
        let mut pty = mir::PlaceTy::from_ty(self.body.local_decls[p.local].ty);
        let mut proj = vec![];
        for elem in p.projection.iter() {
            let mut e = J::obj();
            match elem {
                ProjectionElem::Deref => {
                    e.put("k", J::s("deref"));
                    s = format!("(*{})", s);
                }
                ProjectionElem::Field(f, fty) => {
                    e.put("k", J::s("field"));
                    e.put("idx", J::n(f.as_u32() as i128));
                    e.put("ty", J::s(&format!("{}", fty)));
                    let mut name = format!("{}", f.as_u32());
                    if let ty::Adt(adt, _) = pty.ty.kind() {
                        let vidx = pty.variant_index.unwrap_or(rustc_abi::FIRST_VARIANT);
                        if let Some(v) = adt.variants().get(vidx) {
                            if let Some(fd) = v.fields.get(f) {
                                name = fd.name.to_string();
                            }
                        }
                        e.put("adt", J::s(&item_path(tcx, adt.did())));
                    }
                    e.put("name", J::s(&name));
                    s = format!("{}.{}", s, name);
                }
                ProjectionElem::Downcast(sym, vidx) => {
                    e.put("k", J::s("downcast"));
                    let mut name = sym.map(|x| x.to_string()).unwrap_or_default();
                    if name.is_empty() {
                        if let ty::Adt(adt, _) = pty.ty.kind() {
                            name = adt.variant(vidx).name.to_string();
                        }
                    }
                    e.put("variant", J::s(&name));
                    e.put("idx", J::n(vidx.as_u32() as i128));
                    if let ty::Adt(adt, _) = pty.ty.kind() {
                        e.put("adt", J::s(&item_path(tcx, adt.did())));
                    }
                    s = format!("({} as {})", s, name);
                }
                ProjectionElem::Index(l) => {
                    e.put("k", J::s("index"));
                    e.put("local", J::n(l.as_u32() as i128));
                    s = format!("{}[_{}]", s, l.as_u32());
                }
                ProjectionElem::ConstantIndex { offset, min_length, from_end } => {
                    e.put("k", J::s("constindex"));
                    e.put("offset", J::n(offset as i128));
                    e.put("min_length", J::n(min_length as i128));
                    e.put("from_end", J::b(from_end));
                    s = format!("{}[{}{}]", s, if from_end { "-" } else { "" }, offset);
                }
                ProjectionElem::Subslice { from, to, from_end } => {
                    e.put("k", J::s("subslice"));
                    e.put("from", J::n(from as i128));
                    e.put("to", J::n(to as i128));
                    e.put("from_end", J::b(from_end));
                    s = format!("{}[{}..{}]", s, from, to);
                }
                other => {
                    e.put("k", J::s("other"));
                    e.put("dbg", J::s(&format!("{:?}", other)));
                    s = format!("{}.<{:?}>", s, other);
                }
            }
            pty = pty.projection_ty(tcx, elem);
            proj.push(e);
        }
        o.put("proj", J::Arr(proj));
        o.put("s", J::s(&s));
        o.put("ty", J::s(&format!("{}", pty.ty)));
        o
    }

    fn constant(&self, c: &Const<'tcx>, span: Span) -> J {
        let tcx = self.tcx;
        let mut o = J::obj();
        let ty = c.ty();
        o.put("ty", J::s(&format!("{}", ty)));
        o.put("s", J::s(&format!("{}", c)));
        if let ty::FnDef(fid, args) = ty.kind() {
            o.put("fn_def", J::s(&item_path(tcx, *fid)));
            o.put("fn_def_args", J::s(&tcx.def_path_str_with_args(*fid, args)));
            if let Ok(Some(inst)) = ty::Instance::try_resolve(tcx, self.env, *fid, args) {
                o.put("fn_resolved", J::s(&item_path(tcx, inst.def_id())));
            }
            return o;
        }
        if let Const::Unevaluated(uv, _) = c {
            o.put("uneval", J::s(&item_path(tcx, uv.def)));
            if let Some(p) = uv.promoted {
                o.put("promoted", J::n(p.as_u32() as i128));
            }
        }
        if let Some(si) = c.try_eval_scalar_int(tcx, self.env) {
            scalar_int_json(&mut o, si, ty);
        } else if let Ok(val) = c.eval(tcx, self.env, span) {
            let v = const_value_json(tcx, val, ty);
            if let J::Obj(kvs) = v {
                for (k, vv) in kvs {
                    o.put(&k, vv);
                }
            }
            // pointer to an allocation (e.g. &[u8; N] format templates)
            if let ConstValue::Scalar(mir::interpret::Scalar::Ptr(ptr, _)) = val {
                let (prov, off) = ptr.into_raw_parts();
                if let Some(mir::interpret::GlobalAlloc::Memory(alloc)) =
                    tcx.try_get_global_alloc(prov.alloc_id())
                {
                    let a = alloc.inner();
                    let len = a.len();
                    let start = off.bytes_usize();
                    if start <= len && a.provenance().ptrs().is_empty() {
                        let bytes =
                            a.inspect_with_uninit_and_ptr_outside_interpreter(start..len);
                        o.put(
                            "alloc_bytes",
                            J::Arr(bytes.iter().map(|b| J::n(*b as i128)).collect()),
                        );
                    }
                }
            }
        }
        o
    }

    fn operand(&self, op: &Operand<'tcx>) -> J {
        let mut o = J::obj();
        match op {
            Operand::Copy(p) => {
                o.put("k", J::s("copy"));
                o.put("place", self.place(p));
            }
            Operand::Move(p) => {
                o.put("k", J::s("move"));
                o.put("place", self.place(p));
            }
            Operand::Constant(c) => {
                o.put("k", J::s("const"));
                o.put("const", self.constant(&c.const_, c.span));
            }
            #[allow(unreachable_patterns)]
            other => {
                o.put("k", J::s("other"));
                o.put("dbg", J::s(&format!("{:?}", other)));
            }
        }
        o
    }

    fn op_ty(&self, op: &Operand<'tcx>) -> String {
        format!("{}", op.ty(&self.body.local_decls, self.tcx))
    }

    fn rvalue(&self, rv: &Rvalue<'tcx>) -> J {
        let tcx = self.tcx;
        let mut o = J::obj();
        match rv {
            Rvalue::Use(op, ..) => {
                o.put("k", J::s("use"));
                o.put("op", self.operand(op));
            }
            Rvalue::Repeat(op, n) => {
                o.put("k", J::s("repeat"));
                o.put("op", self.operand(op));
                o.put("n", J::s(&format!("{}", n)));
            }
            Rvalue::Ref(_, bk, p) => {
                o.put("k", J::s("ref"));
                o.put("mut", J::b(matches!(bk, mir::BorrowKind::Mut { .. })));
                o.put("place", self.place(p));
            }
            Rvalue::RawPtr(k, p) => {
                o.put("k", J::s("rawptr"));
                o.put("kind", J::s(&format!("{:?}", k)));
                o.put("place", self.place(p));
            }
            Rvalue::Cast(kind, op, to) => {
                o.put("k", J::s("cast"));
                let ks = match kind {
                    CastKind::IntToInt => "IntToInt".to_string(),
                    CastKind::FloatToInt => "FloatToInt".to_string(),
                    CastKind::FloatToFloat => "FloatToFloat".to_string(),
                    CastKind::IntToFloat => "IntToFloat".to_string(),
                    CastKind::Transmute => "Transmute".to_string(),
                    other => format!("{:?}", other),
                };
                o.put("kind", J::s(&ks));
                o.put("op", self.operand(op));
                o.put("from", J::s(&self.op_ty(op)));
                o.put("to", J::s(&format!("{}", to)));
            }
            Rvalue::BinaryOp(bop, ops) => {
                o.put("k", J::s("binop"));
                o.put("op", J::s(binop_str(*bop)));
                o.put("l", self.operand(&ops.0));
                o.put("r", self.operand(&ops.1));
                o.put("lty", J::s(&self.op_ty(&ops.0)));
                o.put("rty", J::s(&self.op_ty(&ops.1)));
            }
            Rvalue::UnaryOp(uop, op) => {
                o.put("k", J::s("unop"));
                let us = match uop {
                    UnOp::Not => "Not".to_string(),
                    UnOp::Neg => "Neg".to_string(),
                    other => format!("{:?}", other),
                };
                o.put("op", J::s(&us));
                o.put("o", self.operand(op));
                o.put("ty", J::s(&self.op_ty(op)));
            }
            Rvalue::Discriminant(p) => {
                o.put("k", J::s("discriminant"));
                o.put("place", self.place(p));
                let pty = p.ty(&self.body.local_decls, tcx).ty;
                if let ty::Adt(adt, _) = pty.kind() {
                    o.put("adt", J::s(&item_path(tcx, adt.did())));
                    if adt.is_enum() {
                        let mut vs = vec![];
                        for (idx, v) in adt.variants().iter_enumerated() {
                            let d = adt.discriminant_for_variant(tcx, idx);
                            let mut vo = J::obj();
                            vo.put("name", J::s(v.name.as_str()));
                            vo.put("discr", J::n(d.val as i128));
                            vs.push(vo);
                        }
                        o.put("variants", J::Arr(vs));
                    }
                }
            }
            Rvalue::Aggregate(kind, ops) => {
                o.put("k", J::s("aggregate"));
                match &**kind {
                    AggregateKind::Adt(adid, vidx, _, _, _) => {
                        let adt = tcx.adt_def(*adid);
                        o.put("agg", J::s("adt"));
                        o.put("adt", J::s(&item_path(tcx, *adid)));
                        let v = adt.variant(*vidx);
                        o.put("variant", J::s(v.name.as_str()));
                        let fnames: Vec<J> =
                            v.fields.iter().map(|f| J::s(f.name.as_str())).collect();
                        o.put("fields", J::Arr(fnames));
                    }
                    AggregateKind::Tuple => o.put("agg", J::s("tuple")),
                    AggregateKind::Array(_) => o.put("agg", J::s("array")),
                    AggregateKind::Closure(cid, _) => {
                        o.put("agg", J::s("closure"));
                        o.put("closure", J::s(&item_path(tcx, *cid)));
                    }
                    other => {
                        o.put("agg", J::s("other"));
                        o.put("dbg", J::s(&format!("{:?}", other)));
                    }
                }
                o.put("ops", J::Arr(ops.iter().map(|x| self.operand(x)).collect()));
            }
            Rvalue::CopyForDeref(p) => {
                o.put("k", J::s("use"));
                let mut oo = J::obj();
                oo.put("k", J::s("copy"));
                oo.put("place", self.place(p));
                o.put("op", oo);
                o.put("deref_copy", J::b(true));
            }
            other => {
                o.put("k", J::s("other"));
                o.put("dbg", J::s(&format!("{:?}", other)));
            }
        }
        o
    }

    fn statement(&self, st: &mir::Statement<'tcx>) -> Option<J> {
        let mut o = J::obj();
        match &st.kind {
            StatementKind::Assign(b) => {
                let (pl, rv) = &**b;
                o.put("k", J::s("assign"));
                o.put("place", self.place(pl));
                o.put("rv", self.rvalue(rv));
            }
            StatementKind::SetDiscriminant { place, variant_index } => {
                o.put("k", J::s("setdiscr"));
                o.put("place", self.place(place));
                o.put("idx", J::n(variant_index.as_u32() as i128));
            }
            StatementKind::StorageLive(_)
            | StatementKind::StorageDead(_)
            | StatementKind::Nop
            | StatementKind::FakeRead(..)
            | StatementKind::AscribeUserType(..)
            | StatementKind::Coverage(..)
            | StatementKind::ConstEvalCounter
            | StatementKind::PlaceMention(..) => return None,
            other => {
                o.put("k", J::s("other"));
                o.put("dbg", J::s(&format!("{:?}", other)));
            }
        }
        o.put("span", span_json(self.tcx, st.source_info.span));
        Some(o)
    }

    fn terminator(&self, t: &mir::Terminator<'tcx>) -> J {
        let tcx = self.tcx;
        let mut o = J::obj();
        match &t.kind {
            TerminatorKind::Goto { target } => {
                o.put("k", J::s("goto"));
                o.put("target", J::n(target.as_u32() as i128));
            }
            TerminatorKind::SwitchInt { discr, targets } => {
                o.put("k", J::s("switch"));
                o.put("discr", self.operand(discr));
                o.put("discr_ty", J::s(&self.op_ty(discr)));
                let mut ts = vec![];
                for (v, bb) in targets.iter() {
                    ts.push(J::Arr(vec![J::n(v as i128), J::n(bb.as_u32() as i128)]));
                }
                o.put("targets", J::Arr(ts));
                o.put("otherwise", J::n(targets.otherwise().as_u32() as i128));
            }
            TerminatorKind::Return => o.put("k", J::s("return")),
            TerminatorKind::Unreachable => o.put("k", J::s("unreachable")),
            TerminatorKind::UnwindResume => o.put("k", J::s("resume")),
            TerminatorKind::UnwindTerminate(_) => o.put("k", J::s("terminate")),
            TerminatorKind::Drop { place, target, .. } => {
                o.put("k", J::s("drop"));
                o.put("place", self.place(place));
                o.put("target", J::n(target.as_u32() as i128));
            }
            TerminatorKind::Call { func, args, destination, target, fn_span, .. } => {
                o.put("k", J::s("call"));
                if let Some((fid, gargs)) = func.const_fn_def() {
                    o.put("callee", J::s(&item_path(tcx, fid)));
                    o.put("callee_args", J::s(&tcx.def_path_str_with_args(fid, gargs)));
                    o.put("callee_local", J::b(fid.is_local()));
                    o.put("callee_crate", J::s(tcx.crate_name(fid.krate).as_str()));
                    if let Ok(Some(inst)) = ty::Instance::try_resolve(tcx, self.env, fid, gargs) {
                        let rid = inst.def_id();
                        if rid != fid {
                            o.put("resolved", J::s(&item_path(tcx, rid)));
                            o.put("resolved_local", J::b(rid.is_local()));
                        }
                    }
                    // self type for trait methods: first generic arg
                    if let Some(first) = gargs.types().next() {
                        o.put("self_ty", J::s(&format!("{}", first)));
                    }
                } else {
                    o.put("callee_op", self.operand(func));
                }
                o.put(
                    "args",
                    J::Arr(args.iter().map(|a| self.operand(&a.node)).collect()),
                );
                o.put(
                    "arg_tys",
                    J::Arr(args.iter().map(|a| J::s(&self.op_ty(&a.node))).collect()),
                );
                o.put("dest", self.place(destination));
                match target {
                    Some(bb) => o.put("target", J::n(bb.as_u32() as i128)),
                    None => o.put("target", J::Null),
                }
                o.put("fn_span", span_json(tcx, *fn_span));
            }
            TerminatorKind::Assert { cond, expected, msg, target, .. } => {
                o.put("k", J::s("assert"));
                o.put("cond", self.operand(cond));
                o.put("expected", J::b(*expected));
                let (kind, detail) = match &**msg {
                    AssertKind::BoundsCheck { .. } => ("BoundsCheck", String::new()),
                    AssertKind::Overflow(op, ..) => ("Overflow", binop_str(*op).to_string()),
                    AssertKind::OverflowNeg(_) => ("OverflowNeg", String::new()),
                    AssertKind::DivisionByZero(_) => ("DivisionByZero", String::new()),
                    AssertKind::RemainderByZero(_) => ("RemainderByZero", String::new()),
                    AssertKind::MisalignedPointerDereference { .. } => {
                        ("MisalignedPointerDereference", String::new())
                    }
                    AssertKind::NullPointerDereference => ("NullPointerDereference", String::new()),
                    other => ("Other", format!("{:?}", other)),
                };
                o.put("kind", J::s(kind));
                o.put("detail", J::s(&detail));
                let mut ops = vec![];
                match &**msg {
                    AssertKind::Overflow(_, a, b) => {
                        ops.push(self.operand(a));
                        ops.push(self.operand(b));
                        o.put("ty", J::s(&self.op_ty(a)));
                    }
                    AssertKind::OverflowNeg(a)
                    | AssertKind::DivisionByZero(a)
                    | AssertKind::RemainderByZero(a) => {
                        ops.push(self.operand(a));
                        o.put("ty", J::s(&self.op_ty(a)));
                    }
                    AssertKind::BoundsCheck { len, index } => {
                        ops.push(self.operand(len));
                        ops.push(self.operand(index));
                    }
                    _ => {}
                }
                o.put("ops", J::Arr(ops));
                o.put("target", J::n(target.as_u32() as i128));
            }
            TerminatorKind::FalseEdge { real_target, .. } => {
                o.put("k", J::s("goto"));
                o.put("target", J::n(real_target.as_u32() as i128));
            }
            TerminatorKind::FalseUnwind { real_target, .. } => {
                o.put("k", J::s("goto"));
                o.put("target", J::n(real_target.as_u32() as i128));
            }
            other => {
                o.put("k", J::s("other"));
                let mut s = String::new();
                let _ = write!(s, "{:?}", other);
                o.put("dbg", J::s(&s));
                let succ: Vec<J> =
                    t.successors().map(|b| J::n(b.as_u32() as i128)).collect();
                o.put("succ", J::Arr(succ));
            }
        }
        // unwind / cleanup edges are deliberately not followed by the rule layer
        o.put("span", span_json(tcx, t.source_info.span));
        o
    }
}

fn binop_str(op: BinOp) -> &'static str {
    match op {
        BinOp::Add => "Add",
        BinOp::AddUnchecked => "AddUnchecked",
        BinOp::AddWithOverflow => "AddWithOverflow",
        BinOp::Sub => "Sub",
        BinOp::SubUnchecked => "SubUnchecked",
        BinOp::SubWithOverflow => "SubWithOverflow",
        BinOp::Mul => "Mul",
        BinOp::MulUnchecked => "MulUnchecked",
        BinOp::MulWithOverflow => "MulWithOverflow",
        BinOp::Div => "Div",
        BinOp::Rem => "Rem",
        BinOp::BitXor => "BitXor",
        BinOp::BitAnd => "BitAnd",
        BinOp::BitOr => "BitOr",
        BinOp::Shl => "Shl",
        BinOp::ShlUnchecked => "ShlUnchecked",
        BinOp::Shr => "Shr",
        BinOp::ShrUnchecked => "ShrUnchecked",
        BinOp::Eq => "Eq",
        BinOp::Lt => "Lt",
        BinOp::Le => "Le",
        BinOp::Ne => "Ne",
        BinOp::Ge => "Ge",
        BinOp::Gt => "Gt",
        BinOp::Cmp => "Cmp",
        BinOp::Offset => "Offset",
    }
}
