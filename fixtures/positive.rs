// Positive self-test fixture: one instance of each construct that a zero-expected rule must
// flag. Compiled by the same driver on every run; if a rule stops firing here the check fails.
#![allow(dead_code, unused)]

pub fn neg_i16(n: i16) -> i16 {
    -n
}
pub fn add_i16(a: i16, b: i16) -> i16 {
    a + b
}
pub fn abs_i16(n: i16) -> i16 {
    n.abs()
}
pub fn wrapping_i16(a: i16, b: i16) -> i16 {
    a.wrapping_mul(b)
}
pub fn unwrap_site(o: Option<u8>) -> u8 {
    o.unwrap()
}
pub fn index_site(v: &[u8], i: usize) -> u8 {
    v[i]
}
pub fn slice_site(s: &str, i: usize) -> &str {
    &s[i..]
}
pub fn find_sentinel(s: &str, p: &str) -> usize {
    s.find(p).unwrap_or(0)
}
pub fn float_cast(x: f32) -> i16 {
    x as i16
}
pub fn spin(v: &mut std::collections::VecDeque<char>) {
    while let Some(c) = v.pop_front() {
        if c == 'x' {
            v.push_front(c);
            continue;
        }
    }
}
pub fn raw_slice_from_number(s: &str, n: usize) -> &str {
    &s[..n]
}
pub fn len_bytes(s: &str) -> usize {
    s.len()
}
