#!/usr/bin/env python3
"""mutgen.py <outdir> [N] [seed]  - systematic small-slip mutants of /repo (operator / constant
flips, one per patch), for measuring the checks against changes nobody designed for them.

 1. generates candidates (relational and boolean operator flips, +-1 constants, true/false) in
    src/mach/*.rs and src/lang/{lex,parse,line,token,ast}.rs, samples N of them (seeded);
 2. for each: builds and runs the 95 tests in a scratch copy (8 workers, own target dirs);
 3. for the mutants the tests do NOT notice, runs all 20 quick checks on a scratch copy.
Writes <outdir>/results.json and prints a table of test-surviving mutants with the checks that
report them. Scratch copies live under <outdir> (outside /repo and /verif) and are removed.
This is a development tool: it runs the test suite, so it is not part of any registered check."""
import concurrent.futures
import difflib
import json
import os
import random
import re
import shutil
import subprocess
import sys

HERE = os.path.dirname(os.path.dirname(os.path.abspath(__file__)))
FILES = ["src/mach/codegen.rs", "src/mach/function.rs", "src/mach/link.rs", "src/mach/listing.rs",
         "src/mach/operation.rs", "src/mach/program.rs", "src/mach/runtime.rs", "src/mach/stack.rs",
         "src/mach/val.rs", "src/mach/var.rs", "src/lang/lex.rs", "src/lang/parse.rs",
         "src/lang/line.rs", "src/lang/token.rs", "src/lang/ast.rs"]
OPS = [(r"(?<![<>=!-])<=(?!=)", "<"), (r"(?<![<>=!&-])<(?![<=])", "<="), (r"(?<![<>=!-])>=(?!=)", ">"),
       (r"(?<![<>=!-])>(?![>=])", ">="), (r"==", "!="), (r"!=", "=="), (r"&&", "||"), (r"\|\|", "&&"),
       (r"\+ 1\b", "+ 2"), (r"- 1\b", "- 0"), (r"\btrue\b", "false"), (r"\bfalse\b", "true"),
       (r"\+= 1\b", "+= 2"), (r"\.is_some\(\)", ".is_none()"), (r"\.is_empty\(\)", ".len() == 1"),
       (r"\b255\b", "256"), (r"\b0\.\.=", "1..="), (r"\.rev\(\)", "")]
WORKERS = int(os.environ.get("BL_WORKERS", "8"))


def candidates():
    out = []
    for rel in FILES:
        lines = open(os.path.join("/repo", rel)).read().split("\n")
        in_test = False
        for i, ln in enumerate(lines):
            st = ln.strip()
            if st.startswith("#[cfg(test)]"):
                in_test = True
            if in_test or st.startswith("//") or st.startswith("use ") or st.startswith("#[") \
                    or "debug_assert" in st or "=>" in st and "if " not in st and "==" not in st \
                    and "<" not in st and "true" not in st and "false" not in st:
                continue
            code = ln.split("//")[0]
            if "->" in code and ("fn " in code or "|" in code):
                continue
            if "<" in code and re.search(r"\b(Vec|Option|Result|Rc|Arc|HashMap|BTreeMap|Stack|impl|for)<", code):
                gen = True
            else:
                gen = False
            for pat, rep in OPS:
                for m in re.finditer(pat, code):
                    if gen and pat in (OPS[1][0], OPS[3][0]):
                        continue
                    if "'" in code[max(0, m.start() - 2):m.end() + 2] or '"' in code[:m.start()] and \
                            code[:m.start()].count('"') % 2 == 1:
                        continue
                    new = code[:m.start()] + rep + code[m.end():] + ln[len(code):]
                    out.append((rel, i, ln, new, "%s -> %s" % (m.group(0), rep)))
    return out


def make_patch(rel, i, new):
    src = open(os.path.join("/repo", rel)).read().split("\n")
    dst = list(src)
    dst[i] = new
    a = [x + "\n" for x in src]
    b = [x + "\n" for x in dst]
    return "".join(difflib.unified_diff(a, b, "a/" + rel, "b/" + rel))


def test_one(args):
    k, outdir, w = args
    wd = os.path.join(outdir, "w%d" % w)
    pf = os.path.join(outdir, "m%03d.patch" % k)
    subprocess.run(["git", "checkout", "-q", "--", "src"], cwd=wd)
    p = subprocess.run(["patch", "-p1", "-s", "-i", pf], cwd=wd, stdout=subprocess.PIPE,
                       stderr=subprocess.STDOUT, text=True)
    if p.returncode != 0:
        return k, "nopatch"
    env = dict(os.environ, CARGO_NET_OFFLINE="true", CARGO_TARGET_DIR=os.path.join(outdir, "t%d" % w))
    try:
        r = subprocess.run(["cargo", "test", "--offline", "--no-fail-fast", "--quiet"], cwd=wd, env=env,
                           stdout=subprocess.PIPE, stderr=subprocess.STDOUT, text=True, timeout=240)
    except subprocess.TimeoutExpired:
        subprocess.run(["pkill", "-f", os.path.join(outdir, "t%d" % w)])
        return k, "timeout"
    if "error[" in r.stdout or "error:" in r.stdout and "could not compile" in r.stdout:
        return k, "nocompile"
    return k, ("survived" if r.returncode == 0 else "killed")


def main(argv):
    outdir = os.path.abspath(argv[0])
    n = int(argv[1]) if len(argv) > 1 else 200
    seed = int(argv[2]) if len(argv) > 2 else 1
    os.makedirs(outdir, exist_ok=True)
    cands = candidates()
    # skip what earlier samples (notes/mutgen*_results.json) already tried
    done = set()
    notes = os.path.join(HERE, "notes")
    for fn in os.listdir(notes) if os.path.isdir(notes) else []:
        if fn.startswith("mutgen") and fn.endswith("_results.json"):
            for m in json.load(open(os.path.join(notes, fn))):
                done.add((m["file"], m["new"]))
    cands = [c for c in cands if (c[0], c[3].strip()) not in done]
    random.Random(seed).shuffle(cands)
    cands = cands[:n]
    meta = []
    for k, (rel, i, old, new, what) in enumerate(cands):
        open(os.path.join(outdir, "m%03d.patch" % k), "w").write(make_patch(rel, i, new))
        meta.append({"k": k, "file": rel, "line": i + 1, "what": what, "old": old.strip(), "new": new.strip()})
    print("%d candidates sampled" % len(cands))
    # workers: a git copy of /repo each, target dirs seeded by one cold build
    for w in range(WORKERS):
        wd = os.path.join(outdir, "w%d" % w)
        if not os.path.isdir(wd):
            subprocess.run(["git", "clone", "-q", "/repo", wd], check=True)
    env = dict(os.environ, CARGO_NET_OFFLINE="true", CARGO_TARGET_DIR=os.path.join(outdir, "t0"))
    subprocess.run(["cargo", "test", "--offline", "--no-run", "--quiet"], cwd=os.path.join(outdir, "w0"),
                   env=env, stdout=subprocess.DEVNULL, stderr=subprocess.DEVNULL)
    for w in range(1, WORKERS):
        if not os.path.isdir(os.path.join(outdir, "t%d" % w)):
            shutil.copytree(os.path.join(outdir, "t0"), os.path.join(outdir, "t%d" % w), symlinks=True)
    res = {}
    # each worker processes its share sequentially
    def work(w):
        out = []
        for k in range(w, len(cands), WORKERS):
            out.append(test_one((k, outdir, w)))
        return out
    with concurrent.futures.ThreadPoolExecutor(WORKERS) as ex:
        for lst in ex.map(work, range(WORKERS)):
            for k, st in lst:
                res[k] = st
    surv = [k for k, st in sorted(res.items()) if st == "survived"]
    print("tests: %s" % {s: sum(1 for v in res.values() if v == s) for s in set(res.values())})
    # checks on survivors
    def chk(k):
        env = dict(os.environ, BL_TARGET_SUFFIX="-w%d" % (k % 6))
        p = subprocess.run([sys.executable, os.path.join(HERE, "tools", "mutate.py"),
                            os.path.join(outdir, "m%03d.patch" % k)], cwd=HERE, env=env,
                           stdout=subprocess.PIPE, stderr=subprocess.STDOUT, text=True)
        fired = [l[6:].strip() for l in p.stdout.splitlines() if l.startswith("FIRED:")]
        return k, (fired[0] if fired else "?")
    with concurrent.futures.ThreadPoolExecutor(6) as ex:
        for k, fired in ex.map(chk, surv):
            meta[k]["fired"] = fired
    for m in meta:
        m["tests"] = res.get(m["k"])
    json.dump(meta, open(os.path.join(outdir, "results.json"), "w"), indent=1)
    for m in meta:
        if m["tests"] == "survived":
            print("%03d %-22s:%-4d %-14s %-10s | %s" % (m["k"], m["file"], m["line"], m["what"],
                                                        m.get("fired"), m["new"][:90]))
    for w in range(WORKERS):
        shutil.rmtree(os.path.join(outdir, "w%d" % w), ignore_errors=True)
        shutil.rmtree(os.path.join(outdir, "t%d" % w), ignore_errors=True)


if __name__ == "__main__":
    main(sys.argv[1:])
