#!/usr/bin/env python3
"""record_fix.py <PROP> <sha> <what failed; keys ...>  - appends a `fixed:` line to
known_findings.json and writes mutants/revert-<sha>.patch (the exact revert of the commit)."""
import json
import os
import subprocess
import sys

HERE = os.path.dirname(os.path.dirname(os.path.abspath(__file__)))
prop, sha, text = sys.argv[1], sys.argv[2], " ".join(sys.argv[3:])
p = os.path.join(HERE, "known_findings.json")
d = json.load(open(p))
line = "fixed: property=%s %s %s" % (prop, sha, text)
if not any((" %s " % sha) in x for x in d["fixed"]):
    d["fixed"].append(line)
json.dump(d, open(p, "w"), indent=1)
out = subprocess.check_output(["git", "-C", "/repo", "show", "-R", sha], text=True)
open(os.path.join(HERE, "mutants", "revert-%s.patch" % sha), "w").write(out)
print(line)
