#!/usr/bin/env python3
"""run_mutants.py [glob ...]  - runs every /verif/mutants/*.patch (or the given globs) against
the check of the property named by the file's prefix (revert-* : all checks) in parallel scratch
copies; prints a table and exits 1 if a mutant is not detected by its own property's check."""
import concurrent.futures
import fnmatch
import json
import os
import re
import subprocess
import sys

HERE = os.path.dirname(os.path.dirname(os.path.abspath(__file__)))
WORKERS = int(os.environ.get("BL_WORKERS", "6"))


def run(args):
    i, path = args
    name = os.path.basename(path)
    m = re.match(r"^(C\d\d)-", name)
    props = [m.group(1)] if m else []
    env = dict(os.environ)
    env["BL_TARGET_SUFFIX"] = "-w%d" % (i % WORKERS)
    p = subprocess.run([sys.executable, os.path.join(HERE, "tools", "mutate.py"), path] + props,
                       cwd=HERE, env=env, stdout=subprocess.PIPE, stderr=subprocess.STDOUT, text=True)
    fired = ""
    first = ""
    for l in p.stdout.splitlines():
        if l.startswith("FIRED:"):
            fired = l[7:].strip()
        if "violated:" in l and not first:
            first = l.strip()[:150]
    return name, props, fired, first, p.returncode


def main(argv):
    files = sorted(os.listdir(os.path.join(HERE, "mutants")))
    files = [f for f in files if f.endswith(".patch")]
    if argv:
        files = [f for f in files if any(fnmatch.fnmatch(f, g) for g in argv)]
    paths = [os.path.join(HERE, "mutants", f) for f in files]
    missed = []
    with concurrent.futures.ThreadPoolExecutor(WORKERS) as ex:
        for name, props, fired, first, rc in ex.map(run, list(enumerate(paths))):
            ok = fired not in ("", "none")
            print("%-40s %-8s %s  %s" % (name, ",".join(props) or "all", fired or "none", first))
            if not ok:
                missed.append(name)
    print("%d mutants, %d missed: %s" % (len(paths), len(missed), missed))
    return 1 if missed else 0


if __name__ == "__main__":
    sys.exit(main(sys.argv[1:]))
