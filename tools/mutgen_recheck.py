#!/usr/bin/env python3
"""mutgen_recheck.py - re-measures the mutgen samples against today's rules WITHOUT running the
tests again: for every candidate that notes/mutgen*_results.json records as surviving the 95
tests, regenerates its one-line patch against /repo's current source (skipping those whose line
has since changed), runs all 20 quick checks on a scratch copy (tools/mutate.py) and rewrites the
`fired` field. Prints the totals that DESIGN.md quotes. Development tool, not a registered check."""
import concurrent.futures
import difflib
import json
import os
import subprocess
import sys
import tempfile

HERE = os.path.dirname(os.path.dirname(os.path.abspath(__file__)))
WORKERS = int(os.environ.get("BL_WORKERS", "6"))


def patch_for(m):
    src = open(os.path.join("/repo", m["file"])).read().split("\n")
    hits = [i for i, l in enumerate(src) if l.strip() == m["old"]]
    if not hits:
        return None
    # the recorded line number may have moved: take the nearest line with the same text
    i = min(hits, key=lambda k: abs(k + 1 - m["line"]))
    ind = src[i][:len(src[i]) - len(src[i].lstrip())]
    dst = list(src)
    dst[i] = ind + m["new"]
    a = [x + "\n" for x in src]
    b = [x + "\n" for x in dst]
    return "".join(difflib.unified_diff(a, b, "a/" + m["file"], "b/" + m["file"]))


def run(args):
    k, m, tmp = args
    p = patch_for(m)
    if p is None:
        return m, "gone"
    pf = os.path.join(tmp, "r%04d.patch" % k)
    open(pf, "w").write(p)
    env = dict(os.environ, BL_TARGET_SUFFIX="-r%d" % (k % WORKERS))
    r = subprocess.run([sys.executable, os.path.join(HERE, "tools", "mutate.py"), pf], cwd=HERE,
                       env=env, stdout=subprocess.PIPE, stderr=subprocess.STDOUT, text=True)
    fired = [l[6:].strip() for l in r.stdout.splitlines() if l.startswith("FIRED:")]
    return m, (fired[0] if fired else "?")


def main():
    notes = os.path.join(HERE, "notes")
    files = sorted(f for f in os.listdir(notes) if f.startswith("mutgen") and f.endswith("_results.json"))
    tot = {"candidates": 0, "survived": 0, "reported": 0, "silent": 0, "gone": 0}
    with tempfile.TemporaryDirectory(prefix="mgr-") as tmp:
        for fn in files:
            data = json.load(open(os.path.join(notes, fn)))
            tot["candidates"] += len(data)
            surv = [m for m in data if m.get("tests") == "survived"]
            with concurrent.futures.ThreadPoolExecutor(WORKERS) as ex:
                for m, fired in ex.map(run, [(k, m, tmp) for k, m in enumerate(surv)]):
                    m["fired_now"] = fired
                    tot["survived"] += 1
                    if fired == "gone":
                        tot["gone"] += 1
                    elif fired in ("none", "?"):
                        tot["silent"] += 1
                        print("silent  %-22s:%-4d %s" % (m["file"], m["line"], m["new"][:90]))
                    else:
                        tot["reported"] += 1
            json.dump(data, open(os.path.join(notes, fn), "w"), indent=1)
    print(json.dumps(tot))
    json.dump(tot, open(os.path.join(notes, "mutgen_totals.json"), "w"), indent=1)


if __name__ == "__main__":
    main()
