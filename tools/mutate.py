#!/usr/bin/env python3
"""mutate.py <patch.diff> [PROP ...]
Applies a patch to a scratch copy of /repo (never to /repo itself), runs the named checks
(default: all claimed) against the copy with --repo, prints which properties report a
violation, removes the copy. exit 0 if at least one check fired, 3 if none did."""
import json
import os
import shutil
import subprocess
import sys
import tempfile

HERE = os.path.dirname(os.path.dirname(os.path.abspath(__file__)))


def main(argv):
    patch = os.path.abspath(argv[0])
    props = argv[1:]
    if not props:
        man = json.load(open(os.path.join(HERE, "MANIFEST.json")))
        props = [c["property_id"] for c in man["checks"]]
    tmp = tempfile.mkdtemp(prefix="blmut.")
    try:
        for n in ("src", "Cargo.toml", "Cargo.lock", "tests"):
            s = os.path.join("/repo", n)
            if os.path.isdir(s):
                shutil.copytree(s, os.path.join(tmp, n))
            elif os.path.exists(s):
                shutil.copy(s, os.path.join(tmp, n))
        p = subprocess.run(["patch", "-p1", "-s", "-i", patch], cwd=tmp,
                           stdout=subprocess.PIPE, stderr=subprocess.STDOUT, text=True)
        if p.returncode != 0:
            print("PATCH FAILED:", p.stdout)
            return 2
        fired = []
        for pr in props:
            env = dict(os.environ)
            env["BL_EVIDENCE_DIR"] = os.path.join(tmp, "evidence")
            r = subprocess.run([os.path.join(HERE, "check"), pr, "--repo", tmp], cwd=HERE,
                               env=env, stdout=subprocess.PIPE, stderr=subprocess.STDOUT, text=True)
            viol = [l for l in r.stdout.splitlines() if l.startswith("  violated:")]
            if r.returncode == 1:
                fired.append(pr)
                for v in viol[:6]:
                    print("   %s %s" % (pr, v.strip()[:260]))
            elif r.returncode != 0:
                print("   %s: exit %d: %s" % (pr, r.returncode, r.stdout[-600:]))
        print("FIRED: %s" % (",".join(fired) or "none"))
        return 0 if fired else 3
    finally:
        shutil.rmtree(tmp, ignore_errors=True)


if __name__ == "__main__":
    sys.exit(main(sys.argv[1:]))
