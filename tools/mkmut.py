#!/usr/bin/env python3
"""mkmut.py <name> <file-relative-to-repo> <old> <new> [<file> <old> <new> ...]
Writes /verif/mutants/<name>.patch: a unified diff that replaces `old` by `new` (exactly once)
in the given file(s) of /repo. Does not touch /repo."""
import difflib
import os
import sys

HERE = os.path.dirname(os.path.dirname(os.path.abspath(__file__)))


def main(argv):
    name = argv[0]
    rest = argv[1:]
    out = []
    while rest:
        rel, old, new = rest[:3]
        rest = rest[3:]
        src = open(os.path.join("/repo", rel)).read()
        if src.count(old) != 1:
            print("ERROR: %r occurs %d times in %s" % (old[:50], src.count(old), rel))
            return 1
        dst = src.replace(old, new)
        out += list(difflib.unified_diff(src.splitlines(True), dst.splitlines(True),
                                         "a/" + rel, "b/" + rel))
    with open(os.path.join(HERE, "mutants", name + ".patch"), "w") as f:
        f.writelines(out)
    print("wrote mutants/%s.patch (%d lines)" % (name, len(out)))
    return 0


if __name__ == "__main__":
    sys.exit(main(sys.argv[1:]))
