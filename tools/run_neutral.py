#!/usr/bin/env python3
"""run_neutral.py [glob] - applies every behaviour-preserving refactor under /verif/neutral to a
scratch copy of /repo and runs ALL quick checks on it: any check that fires is a false alarm of
the rule set (the refactor leaves behaviour unchanged). Prints a table; exit 1 if anything fired."""
import concurrent.futures
import fnmatch
import os
import subprocess
import sys

HERE = os.path.dirname(os.path.dirname(os.path.abspath(__file__)))
WORKERS = int(os.environ.get("BL_WORKERS", "4"))


def run(args):
    i, path = args
    env = dict(os.environ)
    env["BL_TARGET_SUFFIX"] = "-w%d" % (i % WORKERS)
    p = subprocess.run([sys.executable, os.path.join(HERE, "tools", "mutate.py"), path],
                       cwd=HERE, env=env, stdout=subprocess.PIPE, stderr=subprocess.STDOUT, text=True)
    fired, lines = "?", []
    for l in p.stdout.splitlines():
        if l.startswith("FIRED:"):
            fired = l[6:].strip()
        elif "violated:" in l or "exit" in l or "PATCH" in l:
            lines.append(l.strip()[:230])
    return os.path.basename(path), fired, lines


def main(argv):
    files = sorted(f for f in os.listdir(os.path.join(HERE, "neutral")) if f.endswith(".patch"))
    if argv:
        files = [f for f in files if any(fnmatch.fnmatch(f, g) for g in argv)]
    bad = 0
    with concurrent.futures.ThreadPoolExecutor(WORKERS) as ex:
        for name, fired, lines in ex.map(run, list(enumerate(
                os.path.join(HERE, "neutral", f) for f in files))):
            print("%-32s %s" % (name, fired))
            if fired != "none":
                bad += 1
                for l in lines:
                    print("      " + l)
    print("%d refactors, %d raised an alarm" % (len(files), bad))
    return 1 if bad else 0


if __name__ == "__main__":
    sys.exit(main(sys.argv[1:]))
