#!/usr/bin/env python3
"""Triage helper (NOT part of any check): expands the reviewed table below against the panic
sites of the current tree into the explicit per-site file rules/panic_allow.json.
Each row: (key regex, class, reason, guard|None). A site matching no row is printed and left
out (so the check reports it). Run after a re-triage; the check only reads the JSON."""
import json
import os
import re
import sys

HERE = os.path.dirname(os.path.dirname(os.path.abspath(__file__)))
sys.path.insert(0, HERE)
from lib import facts, mir  # noqa: E402
from rules import panics  # noqa: E402

G = lambda cond, value=True: {"cond": cond, "value": value}  # noqa: E731
# "the value is >= 1 here", in whichever way the rejection of 0 was written
POSITIVE = {"any": [G(" Eq const:0)", False), G(" Le const:0)", False), G(" Lt const:1)", False),
                    G(" Gt const:0)", True), G(" Ge const:1)", True), G(" Ne const:0)", True)]}

LEXINV = ("variable names reaching Var start with an ASCII upper-case letter: the lexer only "
          "starts identifiers on is_ascii_alphabetic and upper-cases every character "
          "(re-verified by C16.a / C10.a)")
ROWS = [
    # ---- debug assertions -------------------------------------------------------------
    # (the debug assertion in Val's Display was listed here with the reason "PRINT only formats
    #  the value an expression leaves"; CONT after an error inside the expression refutes it -
    #  repaired in /repo, see known_findings.json - so the row is gone and the site is unlisted)
    (r"^lang::error::Error::in_column/diverge:.*debug#1$", "debug-only",
     "in_column is only applied to errors fresh from Error::new / stack & conversion errors "
     "(column still 0..0)", None),
    (r"^lang::error::Error::in_line_number/diverge:.*debug#1$", "debug-only",
     "in_line_number is applied once: VM errors are created without a line and receive it in "
     "Runtime::execute; compile errors receive it in parse()/Program::error", None),
    (r"^lang::error::Error::message/diverge:.*debug#1$", "debug-only",
     "message() is only called on message-less errors (error! macro arms, load_str errors)", None),
    (r"^mach::codegen::Generator::def(::\{closure#0\})?/diverge:.*debug#1$", "debug-only",
     "DEF's name and parameters come from expect_ident(), which rejects `(`: they are "
     "Variable::Unary so arg_len is None", None),
    (r"^mach::codegen::VarItem::push_as_pop(_unary)?/diverge:.*debug#\d$", "debug-only",
     "a Unary variable has no index expressions (Generator::variable only appends for Array) and "
     "FOR's variable comes from expect_ident()", None),
    (r"^mach::codegen::Visitor<'a>::accept/diverge:.*debug#\d$", "debug-only",
     "every generator pops all its operands before its first fallible emission, so the three "
     "operand stacks are empty after each top-level statement (cross-checked by the C18 scheme "
     "rule in the thorough tier)", None),
    (r"^mach::link::Link::push_symbol/diverge:.*debug#1$", "debug-only",
     "line symbols are unique BTreeMap keys of the listing; local symbols come from the "
     "strictly decreasing next_symbol()", None),
    (r"^mach::program::Program::codegen/diverge:.*debug#\d$", "debug-only",
     "enter_direct compiles all indirect lines (ascending BTreeMap order) after clear() and "
     "then exactly one direct line", None),
    (r"^mach::runtime::Runtime::enter/diverge:.*debug#1$", "debug-only",
     "protocol: enter() is called after Event::Stopped / Input / Inkey only", None),
    (r"^mach::runtime::Runtime::execute/diverge:.*debug#1$", "debug-only",
     "every state other than Running / InputRunning returns earlier in execute() or is turned "
     "into one that does: re-verified by a may-analysis of the variant of self.state over the "
     "CFG of execute() (swap / replace modelled)",
     {"typestate": {"adt": "mach::runtime::State", "place": "(*_1).state",
                    "within": ["Running", "InputRunning"]}}),
    (r"^mach::runtime::Runtime::input/diverge:.*debug#1$", "debug-only",
     "Opcode::Input runs in Running/InputRunning only and do_input pushed exactly one String "
     "field per variable (count checked against the staged length)", None),
    (r"^mach::stack::Stack<T>::drain/diverge:.*debug#1$", "debug-only",
     "callers pass `..` or `n..` only (pop_n, Link::drain from Program::codegen, drain(..))", None),
    (r"^mach::var::Var::def::\{closure#0\}/diverge:.*debug#1$", "debug-only",
     "Var.vars never holds frame markers: insert_* convert or reject (C02.f)", None),
    (r"^mach::var::Var::(fetch|store)/diverge:.*debug#\d$", "debug-only", LEXINV, None),
    # ---- parser -------------------------------------------------------------------------
    (r"^lang::ast::Expression::expect::descend/assert:Overflow\(Sub,usize\)#1$", "guarded",
     "parse.depth -= 1 on the success exit of an activation that did parse.depth += 1 on entry",
     {"dom_incr": "depth"}),
    (r"^<lang::ast::Ident as std::convert::From<\(&lang::token::Ident, &lang::token::Ident\)>>"
     r"::from::\{closure#0\}/call:Index::index<str>#1$", "guarded",
     "&param[base.len()..] where base = param.trim_end_matches(..) is a prefix of param ending "
     "on a character boundary", {"dom_call": "::trim_end_matches"}),
    (r"^lang::ast::Statement::swap/call:Option::unwrap#\d$", "guarded",
     "two pops after the list length was checked to be 2",
     G("std::vec::Vec::<T, A>::len(", False)),
    (r"^lang::error::Error::column/assert:Overflow\(Add,usize\)#\d$", "bounded",
     "columns are character positions within a line of at most MAX_LINE_LEN bytes", None),
    (r"^lang::parse::BasicParser<'a>::next/assert:Overflow\(Add,usize\)#1$", "bounded",
     "column advances by token widths within a line of at most MAX_LINE_LEN bytes", None),
    # ---- lexer --------------------------------------------------------------------------
    (r"^lang::lex::BasicLexer::collapse_(doubles|triples)/call:Vec::splice#1$", "reasoned",
     "index..index+n was recorded from windows(n).enumerate() of the same vector; recorded "
     "windows share at most their end tokens and are spliced from the highest index down, so "
     "each range is still inside the vector", {"recorded_in_one_loop": True}),
    (r"^lang::lex::BasicLexer::separate_words/call:Vec::insert#1$", "reasoned",
     "index+1 <= len-1 because index indexes a windows(2) item; processed from the highest "
     "index down", {"recorded_in_one_loop": True}),
    (r"^lang::lex::BasicLexer::lex/call:Index::index<str>#\d$", "reasoned",
     "line_str_pos only advances over ASCII digits / blanks / tabs (one byte each) starting at "
     "0 and is re-validated by str::get each iteration: always a char boundary <= len",
     {"ascii_only_fns": ["lang::lex::is_basic_whitespace", "lang::lex::is_basic_digit"],
      "loop_calls": ["core::str::<impl str>::get", "core::str::<impl str>::chars",
                     "<std::str::Chars<'a> as std::iter::Iterator>::next"]}),
    (r"^lang::line::Line::renum/call:String::replace_range#1$", "provenance",
     "both range ends are byte offsets obtained from char_indices().nth() on the same string "
     "(or its len()), start <= end because the character column is ordered",
     {"backslice": [1, "char_indices"]}),
    (r"^lang::lex::BasicLexer::number/assert:Overflow\(Sub,i32\)#1$", "bounded",
     "undoes the +8 added for the same D in this iteration; a signed 32-bit counter whose "
     "magnitude is at most 8 * MAX_LINE_LEN cannot underflow however the subtraction is guarded",
     None),
    (r"^lang::lex::BasicLexer::number/assert:Overflow\(Add,i32\)#\d$", "bounded",
     "digit counter grows by at most 8 per character of a line of at most MAX_LINE_LEN bytes",
     None),
    (r"^lang::token::Token::scan_alphabetic/call:Index::index<str>#\d$", "provenance",
     "offsets are str::find results on the same string plus the matched ASCII keyword's "
     "length", None),
    (r"^lang::token::Token::scan_alphabetic/assert:Overflow\(Add,usize\)#1$", "bounded",
     "idx + keyword length <= s.len()", None),
    # ---- values / functions ---------------------------------------------------------------
    (r"^<mach::val::Val as std::convert::From<&str>>::from/call:Index::index<str>#1$", "guarded",
     "&string[1..] after the first character was tested to be the one-byte 'H' or 'h'",
     {"dom_call": "::starts_with"}),
    (r"^mach::function::Function::(instr|left|mid|right|val)/call:Index::index<str>#\d$",
     "provenance", "byte offsets come from char_indices()/find on the same string "
     "(re-verified by C07.a)", None),
    (r"^mach::function::Function::instr/assert:Overflow\(Sub,usize\)#1$", "guarded",
     "start - 1 after the `start <= 0` rejection (start is then cast from a positive i16)",
     POSITIVE),
    (r"^mach::function::Function::instr::\{closure#0\}/assert:Overflow\(Add,usize\)#1$",
     "bounded", "only runs when char position start-1 exists in a string, so start <= its "
     "length", None),
    (r"^mach::function::Function::mid/assert:Overflow\(Sub,usize\)#1$", "guarded",
     "pos - 1 after the `pos == 0` rejection", POSITIVE),
    (r"^mach::function::Function::right/assert:Overflow\(Sub,usize\)#1$", "guarded",
     "len - 1 after the `len == 0` early return", POSITIVE),
    (r"^mach::function::Function::rnd/assert:Overflow\(Mul,u32\)#\d$", "bounded",
     "state words are < 30323 after the first step and <= 2^24 when seeded (mask 0x00FFFFFF, "
     "+1 in CLEAR): 172 * 2^24 < 2^32", None),
    (r"^mach::function::Function::(spc|string)/call:str::repeat#1$", "guarded",
     "repeat count was range-checked against 255", {"upper_bound": 255}),
    (r"^mach::function::Function::tab/call:str::repeat#1$", "bounded",
     "len <= 255 in both arms (|tab| <= 255)", None),
    (r"^mach::function::Function::tab/assert:OverflowNeg\(i16\)#1$", "guarded",
     "tab was range-checked to -255..=255", G("RangeInclusive::<Idx>::contains(")),
    (r"^mach::function::Function::tab/assert:Overflow\(Sub,usize\)#1$", "reasoned",
     "x % t < t for the positive t = -tab", G(" Lt const:0)")),
    (r"^mach::function::Function::tab/assert:RemainderByZero\(usize\)#1$", "guarded",
     "divisor is -tab for tab < 0, i.e. >= 1", G(" Lt const:0)")),
    (r"^mach::function::Function::tab/assert:Overflow\(Sub,usize\)#2$", "guarded",
     "tab - print_col under `tab > print_col`", G(" Gt arg:1)")),
    # ---- linker / listing -----------------------------------------------------------------
    (r"^mach::link::Link::append/assert:Overflow\(Add,(usize|isize)\)#\d$", "bounded",
     "code/data addresses are bounded by the 64K pools (Stack::overflow_check) and local symbol "
     "counters by the number of emitted opcodes", None),
    (r"^mach::link::Link::next_symbol/assert:Overflow\(Sub,isize\)#1$", "bounded",
     "one local symbol per emitted control opcode, bounded by the 64K code pool", None),
    (r"^mach::link::Link::set_start_of_direct/assert:Overflow\(Add,isize\)#1$", "bounded",
     "65529 + 1 in isize", None),
    (r"^mach::listing::Listing::list_line/call:BTreeMap::range#1$", "reasoned",
     "range start <= end: built by r#list from a parser-checked range (C15.d), or rewritten here "
     "to num+1..=end only when num < end, or to max+1..=max+1; Listing::line uses n..=n", None),
    (r"^mach::listing::Listing::list_line/call:Add::add#1$", "guarded",
     "num + 1 where num < end <= 65529", G("PartialOrd")),
    (r"^mach::listing::Listing::(list_line|renum)/assert:Overflow\(Add,u16\)#\d$", "bounded",
     "LineNumber::max_value() + 1 = 65530 in u16", None),
    (r"^mach::listing::Listing::remove_range/call:BTreeMap::range#1$", "reasoned",
     "range start <= end: r#delete builds it from a parser-checked range (C15.d re-verifies the "
     "inverted-range rejection)", None),
    # ---- runtime ----------------------------------------------------------------------------
    (r"^mach::runtime::Runtime::clear/assert:Overflow\(Add,u32\)#\d$", "bounded",
     "(x & 0x00FFFFFF) + 1 <= 2^24", None),
    (r"^mach::runtime::Runtime::do_input/call:Index::index<str>#\d$", "provenance",
     "start/index are char_indices() offsets of the same string; start = index + 1 steps over "
     "the one-byte ','", None),
    (r"^mach::runtime::Runtime::execute_loop/assert:Overflow\(Add,usize\)#1$", "bounded",
     "print_col grows by at most a few characters per executed opcode", None),
    (r"^mach::runtime::Runtime::input/assert:Overflow\(Sub,usize\)#1$", "reasoned",
     "pc was incremented by execute_loop before dispatch, so pc >= 1", None),
    (r"^mach::runtime::Runtime::input/call:Index::index<str>#1$", "guarded",
     "field[1..len-1] after len >= 2, starts_with('\"') and ends_with('\"')",
     G("ends_with(")),
    (r"^mach::runtime::Runtime::input/assert:Overflow\(Sub,usize\)#2$", "guarded",
     "field.len() - 1 after len >= 2", G(" Ge const:2)")),
    (r"^mach::runtime::Runtime::letmid/assert:Overflow\(Sub,usize\)#1$", "guarded",
     "len -= 1 under len > 0", G(" Gt const:0)")),
    (r"^mach::runtime::Runtime::on/assert:Overflow\(Add,usize\)#\d$", "guarded",
     "pc + len / pc + select-1 with both operands checked non-negative and bounded by i16",
     G(" Lt const:0)", False)),
    (r"^mach::runtime::Runtime::on/assert:Overflow\(Sub,usize\)#1$", "guarded",
     "select - 1 after select == 0 was handled", POSITIVE),
    (r"^mach::runtime::Runtime::tron/assert:Overflow\(Sub,usize\)#1$", "reasoned",
     "pc was incremented by execute_loop before dispatch, so pc >= 1", None),
    # ---- stack / var ------------------------------------------------------------------------
    (r"^mach::stack::Stack<T>::drain/call:Vec::drain#1$", "reasoned",
     "callers pass `..`, `len-n..` (after n <= len) or `direct_address..` with direct_address "
     "<= len (set from Link::len() and only followed by pushes)", None),
    (r"^mach::stack::Stack<T>::is_full/assert:Overflow\(Sub,usize\)#1$", "bounded",
     "65535 - 32", None),
    (r"^mach::stack::Stack<T>::pop_n/assert:Overflow\(Sub,usize\)#1$", "guarded",
     "vec.len() - len after `len > vec.len()` returned the underflow error",
     G("arg:2 Gt ", False)),
    (r"^mach::var::Var::(def|fetch|store)/assert:(Overflow\(Sub,usize\)|BoundsCheck)#\d$",
     "reasoned", LEXINV + "; DEFtype operands are single letters with from <= to (parser)", None),
]


def main():
    cr = mir.Crate(facts.load())
    roots = list(cr.fns)
    seen = cr.reachable_from(roots)
    out = {}
    unmatched = []
    used = set()
    for p in sorted(seen):
        f = cr.fns[p]
        for s in panics.sites_of(f):
            if panics.generic_discharge(f, s):
                continue
            hit = None
            for i, (rx, cls, reason, guard) in enumerate(ROWS):
                if re.search(rx, s["key"]):
                    hit = (i, cls, reason, guard)
                    break
            if hit is None:
                unmatched.append((s["key"], mir.loc(s["span"]), s["ops"]))
                continue
            used.add(hit[0])
            e = {"class": hit[1], "reason": hit[2]}
            if hit[3]:
                e["guard"] = hit[3]
            ok, txt = panics.verify_guard(f, s, e)
            if not ok:
                print("GUARD DOES NOT VERIFY:", s["key"], txt,
                      [c for c in f.conds_at(s["bb"]) if c[0] == "eq"])
            out[s["key"]] = e
    with open(panics.ALLOW_FILE, "w") as fh:
        json.dump(out, fh, indent=1, sort_keys=True)
    print("%d sites listed, %d unmatched" % (len(out), len(unmatched)))
    for u in unmatched:
        print("UNMATCHED", u)
    for i, r in enumerate(ROWS):
        if i not in used:
            print("UNUSED ROW", r[0])


if __name__ == "__main__":
    main()
