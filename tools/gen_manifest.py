#!/usr/bin/env python3
"""Regenerates /verif/MANIFEST.json from the table below (keeps it schema-valid)."""
import json
import os

HERE = os.path.dirname(os.path.dirname(os.path.abspath(__file__)))

NOTE = ("trusted base: rustc nightly's type checker and MIR construction (the analysed program "
        "is the type-checked MIR of /repo's working tree under the real Cargo flags), the "
        "bl-facts dumper (no rules inside), and the reviewed tables in /verif/rules (each row "
        "keyed by resolved names with a reason). Decides the structural clauses named in "
        "DESIGN.md section 3 for this property, not the behaviour as a whole.")

CLAIMS = {
    "C08": ("complete for the 'never wraps / never crashes / never truncates' half: every MIR "
            "body of the evaluator is enumerated; no unchecked i16 arithmetic construct, every "
            "checked_* result unpacked into Integer-or-OVERFLOW, DIVISION BY ZERO only under "
            "divisor==0, every float->int cast under both range guards. Numeric results are not "
            "decided.",
            "MIR operation inventory + path-condition (guard-dominates) analysis"),
}

CLAIMS["C03"] = (
    "decides the crash and wedge clauses structurally: (a) complete inventory of panic-capable "
    "constructs (MIR asserts, diverging calls, calls into std API documented to panic) over every "
    "function of the lib crate, each discharged by a re-checked guard or a reviewed row; (b) every "
    "loop of the crate makes progress on every cycle (lexicographic measure argument, push-back "
    "weighed by negative-cycle detection), scanners consume >= 1 character; (d) line-length guard "
    "dominates lexer entry, recursion set reviewed and the expression cycle depth-guarded; "
    "debug assertions on the interpreter state are discharged by a variant may-analysis "
    "(typestate) of self.state; (e) VM errors become BASIC error states. Not decided: exact "
    "native stack budget, UI protocol liveness.",
    "panic-site inventory + loop-progress (ranking) analysis on MIR CFGs")

CLAIMS["C14"] = (
    "decides the structural half of RENUM: the set of statements carrying line-number operands "
    "is derived from parser and code generator and must be covered arm by arm by the RENUM "
    "visitor; splice offsets are bytes (char_indices provenance); sentinel/default operands are "
    "guarded; step 0 rejected; no error exit after the single store of the new listing; guards of "
    "Runtime::renum dominate. Behavioural identity of the renumbered program is not decided.",
    "writer/reader table agreement (parser x codegen x visitor) + provenance + guard dominance")

CLAIMS["C04"] = (
    "decides cache validity as effects: the writers of the stored program are enumerated from "
    "MIR (field private to its module) and must equal the reviewed set; a may-analysis over "
    "(dirty known true, program mutated) per mutating function finds no return with a pending "
    "unflagged mutation; dirty is cleared only next to a full recompile; the recompile clears "
    "every address-bearing field (stack, functions, cont) and re-seats pc/entry/tr; from the VM "
    "only DELETE/RENUM/NEW reach a mutator. Equality of RUN transcripts is not decided.",
    "who-may-write + must-write dataflow (effect analysis) on MIR")

CLAIMS["C12"] = (
    "decides reset completeness over a total state inventory: every field of Runtime, Var, "
    "Program, Link, Listing (from the type definitions) is classified, and CLEAR / NEW / the "
    "recompile must write every field of their class on every path (must-write over the CFG); "
    "RUN is compiled as Clear+Jump and dispatched to Runtime::clear. Equality of a run with a run "
    "in a fresh interpreter is not decided.",
    "state inventory from ADT definitions + must-write-on-all-paths effect analysis")

CLAIMS["C05"] = (
    "decides the writer/reader half of the listing fixed point: the lister's tables (Display of "
    "Word, Operator, Literal, Token, Line) and the scanner's tables (keyword table incl. order, "
    "single-character table, operator merger, dispatch characters) are extracted from MIR by "
    "resolved variant and must agree row by row; word separation agrees with alphabetic spellings; "
    "SAVE/LOAD use Display and load_str. Idempotence of number scanning and byte-for-byte text "
    "preservation are not decided.",
    "sibling table extraction and agreement (lexer vs lister) on MIR")
CLAIMS["C16"] = (
    "decides the structural half: case closure of every raw-input letter comparison including "
    "its guard context, equality of the blank-separated and adjacent operator-merging relations "
    "(with the documented spellings present), GO TO / GO SUB rows, aliases and optional LET "
    "building the same AST node. That all spellings run identically is not decided.",
    "comparison-constant closure with path-condition contexts + sibling relation agreement")

CLAIMS["C02"] = (
    "decides the tables, not the values: precedence (code vs manual text, three-way), left "
    "associativity and recursion levels of the precedence climber, unary operators never folded "
    "into literals, the composed chain token -> AST node -> opcode -> handler against a frozen "
    "semantic table, postfix operand order by def-use, all 45 cells of the promotion lattice plus "
    "27 comparator cells and the integer-only operators, relational results -1/0, typed store by "
    "suffix and DEFtype. Numeric results and literal classification are not decided.",
    "match-table extraction by resolved variant + lattice check + def-use ordering on MIR")

CLAIMS["C07"] = (
    "decides units, limits and sentinels: every str slice of the VM takes bounds whose def-use "
    "back-slice ends in char_indices()/find()/len() of the same string object (a bound fed by a "
    "BASIC number without char_indices().nth() is reported); find() offsets are matched only "
    "against char_indices() of the searched string; LEN and the 255 limits count chars; limits "
    "are `> 255`; a not-found search is never folded into a legal position; domain errors map to "
    "the documented codes. That each function returns the documented substring is not decided.",
    "provenance (def-use back-slice) analysis of slice bounds + constant/comparison-kind checks")

CLAIMS["C06"] = (
    "decides the structural clauses: fetch and store map every suffix and DEFtype to the same "
    "type with the right defaults; array keys only come from the bound-checked builder with both "
    "SUBSCRIPT OUT OF RANGE guards, the negative guard and the auto-dimension 10; redimension and "
    "erase guards and their separator agreement; SWAP's reject path restores both operands; "
    "defaults are removed not stored; the DEFtype purge keys on the right characters. Injectivity "
    "of the string key encoding is not decided.",
    "table extraction by path condition + guard dominance + def-use order checks on MIR")

CLAIMS["C01"] = (
    "decides control-transfer plumbing: every placeholder opcode's address is registered for "
    "patching before it is pushed; the linker patches each placeholder kind in its own arm with "
    "the right component (code vs data address); WHILE/WEND cross-linking; the VM dispatch table "
    "(91 opcodes) and the statement->generator table (39) against frozen reviewed tables; every "
    "compiled sub-fragment is consumed on every successful codegen path (ownership/linearity "
    "rule over MIR moves); RETURN carries only the top value; trace lookup. Program output for "
    "all programs is not decided.",
    "must-dominate registration, table agreement, linear-use (move) analysis on MIR")
CLAIMS["C20"] = (
    "decides the relocation arithmetic structurally: Link::append reads its offsets before "
    "appending and adds the matching offset to each of the imported addresses and local "
    "symbols while leaving line symbols untouched; resolution is by symbol key; line symbols "
    "precede their code; direct code sits after the linked program; one allocator for local "
    "symbols. Behavioural equality across layouts is not decided.",
    "def-use analysis of relocation additions + dominance of offset reads")

CLAIMS["C09"] = (
    "decides the DATA plumbing structurally: constants are transformed and appended in source "
    "order; every popped fragment (hence every DATA constant in any statement position) is "
    "consumed on every successful codegen path; symbols carry a data address and Restore is "
    "patched with it; the pointer is rewound by CLEAR/RUN; OUT OF DATA and advance-on-success in "
    "read_data; READ/LET/INPUT share the store emitter. Delivered values are not decided.",
    "linear-use analysis + emitter/patcher agreement + path-condition checks on MIR")
CLAIMS["C10"] = (
    "decides locality and the call frame structurally: parameters are renamed to names the "
    "scanner cannot produce, one substitution map is threaded through every recursive parse of "
    "the body, the same names are the Pop targets; every path of the call handler pushes a return "
    "address before moving pc, arguments reversed above it, parameters popped in order, entry "
    "address pc+1; error mapping for arity / undefined / direct DEF. Values are not decided.",
    "argument-threading (def-use) check + must-dominate frame push + emission order on MIR")
CLAIMS["C18"] = (
    "decides boundedness structurally: pool vector private and every growth followed by the "
    "limit check on all paths; variable pool limit dominates inserts; every container field of "
    "the state structs inventoried with its bound (fail closed on new ones); a full stack is "
    "cleared on error; defaults free their slots; ON..GOSUB's frame marker is consumed on the "
    "fall-through path; RETURN carries at most the top value; INPUT accepts exactly as many "
    "fields as it pops; a full variable pool still accepts overwrites. Stack neutrality of "
    "every statement template as a whole and long-run behaviour are not decided.",
    "must-pass-through (post-dominance) of limit checks + container inventory from ADT types")

CLAIMS["C11"] = (
    "decides the cursor-column bookkeeping as effects: each of the 13 constructions of a terminal "
    "output event must be in a reviewed table and show its required print_col effect on the path "
    "(reset / per-character count / known zero); PRINT counts characters with newline reset; "
    "TAB/POS receive the column; ',' is TAB(-14); trailing separators; number framing and "
    "formatting from the value's own float type. Zone arithmetic, exponent switch and float "
    "round-trip are not decided.",
    "effect table over event constructions + must-write / path-condition checks on MIR")

CLAIMS["C13"] = (
    "decides non-interference and save/restore pairing structurally: the forward def-use slice "
    "of the instruction budget is only the dispatch loop's range (the counter is unread, all "
    "handlers run after the pc increment); every save of a continuation also saves pc on all "
    "paths, only CONT reads it; writers of cont/cont_pc/pc equal reviewed sets; the value stack "
    "is cleared only under the cannot-continue condition. Equality of total output under "
    "interruption at every k is not decided.",
    "forward-slice non-interference + must-write pairing + who-may-write tables on MIR")
CLAIMS["C15"] = (
    "partial: decides store discipline (ordered map type and traversals, insert-or-delete on "
    "entry keyed by the line's own number, inclusive ranges end to end, the bare-DELETE / "
    "inverted-range / 65529 guards with reviewed comparison operators, defaults chosen by "
    "presence not value, the two pieces of LIST's range rewriting). That list_line's "
    "self-rewriting range emits exactly the lines in range for every history is not decided.",
    "type facts + guard dominance + comparison-operator table on MIR")
CLAIMS["C17"] = (
    "decides the INPUT staging protocol structurally: template order, marker below the reversed "
    "fields, the closing handler pops exactly the four staged entries, caps constants and their "
    "test, prompt suffix, who may request a redo, unwind to the marker with pc restore, pc "
    "re-pointing, radix conversion on the unmodified text shared with VAL. Reply parsing over all "
    "strings is not decided.",
    "emission-order extraction + push/pop count agreement + who-may-write on MIR")
CLAIMS["C19"] = (
    "decides the gate and the column plumbing structurally: the Jump arm's compile-error gate "
    "and the direct-error stop dominate execution; other entries use addresses cleared on "
    "recompile; parser columns advance by the character count of each token's listed text and "
    "Error::column re-bases by the listed prefix; link-time diagnostics take the operand's "
    "column (keyword for WHILE/WEND) and line_number_for(address). Exact ranges for every "
    "statement shape are not decided.",
    "guard dominance + provenance of column operands + unit (char count) checks on MIR")

NOT_APPLICABLE = {}


def main():
    props = [json.loads(l) for l in open(os.path.join(HERE, "properties.jsonl"))]
    checks = []
    na = []
    for p in props:
        pid = p["id"]
        if pid in CLAIMS:
            text, tech = CLAIMS[pid]
            checks.append({
                "property_id": pid,
                "quick_cmd": "./check %s --tier quick" % pid,
                "thorough_cmd": "./check %s --tier thorough" % pid,
                "evidence_file": "/verif/evidence/%s.json" % pid,
                "replay_cmd_template": "./check %s --replay {path}" % pid,
                "engine": "bl-facts+rules",
                "level_claimed": {"category": "other", "text": text,
                                  "design_ref": "DESIGN.md section 3, %s" % pid},
                "level_note": NOTE,
                "technique": "static analysis: " + tech,
            })
        else:
            na.append({"property_id": pid,
                       "reason": NOT_APPLICABLE.get(pid, "check not built yet in this round "
                                                    "(static rules planned in DESIGN.md section 3)")})
    man = {
        "version": 1,
        "setup_cmd": "./setup.sh",
        "hooks": {
            "guard": "ae9rb_basic_lang_verif",
            "enable": "none needed: the analysis reads source through a rustc driver; no hooks "
                      "are compiled into /repo and no cfg-guarded commits exist",
            "baseline_off_cmd": "cd /repo && cargo test --workspace --no-fail-fast --offline",
            "source_commits": [],
            "add_only": True,
        },
        "engines": [
            {"name": "bl-facts", "path": "/verif/driver",
             "serves_properties": sorted(CLAIMS),
             "kind_free_text": "rustc_private driver (nightly) run as RUSTC_WORKSPACE_WRAPPER "
                               "under cargo check: dumps items, ADTs and MIR (resolved callees, "
                               "typed places, constants, spans) of the lib and bin crates as JSON"},
            {"name": "rules", "path": "/verif/rules",
             "serves_properties": sorted(CLAIMS),
             "kind_free_text": "Python rule layer: CFG, dominators, def-use chasing, must-hold "
                               "path conditions, call graph, table extraction; one module per "
                               "property"},
        ],
        "checks": checks,
        "not_applicable": na,
        "notes": "All checks are static: nothing registered here executes the interpreter, its "
                 "tests, a fuzzer or a solver. exit 2 = infrastructure failure (crate does not "
                 "compile).",
    }
    with open(os.path.join(HERE, "MANIFEST.json"), "w") as f:
        json.dump(man, f, indent=1)
    print("MANIFEST.json: %d checks, %d not_applicable" % (len(checks), len(na)))


if __name__ == "__main__":
    main()
