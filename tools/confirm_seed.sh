#!/bin/bash
# confirm_seed.sh <seed-dir containing patch.diff seed_demo.rs meta.json> <name>
# Confirms a seeded change independently in a fresh scratch worktree of /repo HEAD:
#  demo passes without the patch, patch applies, build ok, the 95 existing tests pass with it,
#  demo fails with it. On success copies the seed to /verif/seeded/<name>/ . Removes the worktree.
set -u
SEED=$1; NAME=$2
WT=/tmp/cf-$NAME
export CARGO_NET_OFFLINE=true
git -C /repo worktree remove --force $WT 2>/dev/null
git -C /repo worktree add -q $WT HEAD || exit 2
cd $WT
export CARGO_TARGET_DIR=/tmp/cf-target
cp $SEED/seed_demo.rs tests/seed_demo.rs
R1=$(cargo test --offline --test seed_demo 2>&1 | grep -E "^test result" | head -1)
echo "demo without patch: $R1"
git apply $SEED/patch.diff || { echo "PATCH DOES NOT APPLY"; cd /; git -C /repo worktree remove --force $WT; exit 3; }
R2=$(cargo test --offline --no-fail-fast 2>&1 | grep -E "^test result" | awk '{p+=$4; f+=$6} END {print p" passed "f" failed"}')
echo "all tests incl. demo with patch: $R2"
R3=$(cargo test --offline --test seed_demo 2>&1 | grep -E "^test result" | head -1)
echo "demo with patch: $R3"
cd /
git -C /repo worktree remove --force $WT
OK=1
echo "$R1" | grep -q "ok\." || OK=0
echo "$R3" | grep -q "FAILED" || OK=0
if [ $OK = 1 ]; then
  mkdir -p /verif/seeded/$NAME
  cp $SEED/patch.diff $SEED/seed_demo.rs $SEED/meta.json /verif/seeded/$NAME/
  echo "CONFIRMED -> /verif/seeded/$NAME  ($R2)"
else
  echo "NOT CONFIRMED"
fi
