#!/usr/bin/env python3
"""Fills the generated blocks of DESIGN.md:
  <!-- GEN:rules --> ... <!-- /GEN:rules -->      per property: claim, rule texts with obligation
                                                  counts (from evidence/<ID>.json of the last run)
  <!-- GEN:matrix --> ... <!-- /GEN:matrix -->    which checks report which patch (EXPECT.json)
  <!-- GEN:fixes --> ... <!-- /GEN:fixes -->      the repairs (known_findings.json `fixed`)
Run after the checks have written fresh evidence."""
import json
import os
import re
import sys

HERE = os.path.dirname(os.path.dirname(os.path.abspath(__file__)))
sys.path.insert(0, os.path.join(HERE, "tools"))
import gen_manifest  # noqa: E402


def block(text, name, body):
    a = "<!-- GEN:%s -->" % name
    b = "<!-- /GEN:%s -->" % name
    i, j = text.index(a), text.index(b)
    return text[:i + len(a)] + "\n" + body.rstrip("\n") + "\n" + text[j:]


def rules_section():
    props = [json.loads(l) for l in open(os.path.join(HERE, "properties.jsonl"))]
    out = []
    for p in props:
        pid = p["id"]
        ev = json.load(open(os.path.join(HERE, "evidence", "%s.json" % pid)))
        cov = ev["coverage"]
        claim, tech = gen_manifest.CLAIMS[pid]
        out.append("### %s — %s\n" % (pid, p["title"]))
        out.append("*Technique*: %s.\n" % tech)
        out.append("*Decides / does not decide*: %s\n" % claim)
        out.append("| rule | obligations | what must hold |")
        out.append("|---|---|---|")
        for rid, text in cov["rules"].items():
            n = cov["per_rule"].get(rid, {}).get("obligations", 0)
            if ev["tier"] == "thorough":
                n = "%s (both configurations)" % n
            out.append("| %s | %s | %s |" % (rid, n, text.replace("|", "\\|")))
        out.append("")
    return "\n".join(out)


def matrix_section():
    ex = json.load(open(os.path.join(HERE, "mutants", "EXPECT.json")))
    out = ["| patch | what it changes | reported by |", "|---|---|---|"]
    known = json.load(open(os.path.join(HERE, "known_findings.json")))
    fixed = {}
    for line in known.get("fixed", []):
        m = re.match(r"fixed: property=(C\d\d) (\w+) (.*)", line)
        if m:
            fixed[m.group(2)] = (m.group(1), m.group(3))
    for path in sorted(ex):
        name = path.replace("mutants/", "").replace("/patch.diff", "").replace(".patch", "")
        what = ""
        if path.startswith("seeded/"):
            mp = os.path.join(HERE, os.path.dirname(path), "meta.json")
            if os.path.exists(mp):
                what = json.load(open(mp)).get("summary", "")
        elif "revert-" in path:
            sha = name.split("revert-")[1]
            what = "revert of repair %s: %s" % (sha, fixed.get(sha, ("", ""))[1])
        else:
            what = "hand mutant: " + name.split("-", 2)[-1].replace("-", " ")
        what = what.replace("|", "\\|").replace("\n", " ")
        if len(what) > 230:
            what = what[:227] + "..."
        out.append("| %s | %s | %s |" % (name, what, ", ".join(ex[path]) or "**none**"))
    n = len(ex)
    miss = [p for p in ex if not ex[p]]
    own = 0
    for p, props in ex.items():
        m = re.search(r"(C\d\d)", p)
        if m and m.group(1) in props:
            own += 1
    out.append("")
    out.append("%d patches; %d reported by no check (%s); %d of the patches named after a property "
               "are reported by that property's own check."
               % (n, len(miss), ", ".join(x.replace("/patch.diff", "") for x in miss) or "-", own))
    return "\n".join(out)


def fixes_section():
    known = json.load(open(os.path.join(HERE, "known_findings.json")))
    out = ["| commit | property | what failed |", "|---|---|---|"]
    for line in known.get("fixed", []):
        m = re.match(r"fixed: property=(C\d\d) (\w+) (.*)", line)
        if m:
            out.append("| %s | %s | %s |" % (m.group(2), m.group(1), m.group(3).replace("|", "\\|")))
    out.append("")
    out.append("Open findings (`known`): ")
    for k in known.get("known", []):
        out.append("* **%s** `%s` — %s" % (k["property"], k["key"], k["what"]))
    if not known.get("known"):
        out.append("none.")
    return "\n".join(out)


def main():
    p = os.path.join(HERE, "DESIGN.md")
    t = open(p).read()
    t = block(t, "rules", rules_section())
    t = block(t, "matrix", matrix_section())
    if "<!-- GEN:fixes -->" in t:
        t = block(t, "fixes", fixes_section())
    open(p, "w").write(t)
    print("DESIGN.md regenerated (%d lines)" % t.count("\n"))


if __name__ == "__main__":
    main()
