#!/usr/bin/env python3
"""mk_expect.py [glob ...] - (re)records mutants/EXPECT.json: for every patch under mutants/ and
seeded/*/patch.diff, which properties' quick checks report a violation on a scratch copy of
/repo with the patch applied. With globs, only those rows are refreshed. The thorough tier's
self-test replays the rows of its property (lib/selftest.py)."""
import concurrent.futures
import fnmatch
import glob
import json
import os
import subprocess
import sys

HERE = os.path.dirname(os.path.dirname(os.path.abspath(__file__)))
WORKERS = int(os.environ.get("BL_WORKERS", "6"))
OUT = os.path.join(HERE, "mutants", "EXPECT.json")


def run(args):
    i, rel = args
    env = dict(os.environ)
    env["BL_TARGET_SUFFIX"] = "-w%d" % (i % WORKERS)
    p = subprocess.run([sys.executable, os.path.join(HERE, "tools", "mutate.py"),
                        os.path.join(HERE, rel)], cwd=HERE, env=env,
                       stdout=subprocess.PIPE, stderr=subprocess.STDOUT, text=True)
    fired = None
    for l in p.stdout.splitlines():
        if l.startswith("FIRED:"):
            f = l[6:].strip()
            fired = [] if f == "none" else f.split(",")
    return rel, fired, p.stdout[-300:]


def main(argv):
    rels = sorted(os.path.relpath(p, HERE) for p in
                  glob.glob(os.path.join(HERE, "mutants", "*.patch")) +
                  glob.glob(os.path.join(HERE, "seeded", "*", "patch.diff")))
    if argv:
        rels = [r for r in rels if any(fnmatch.fnmatch(r, g) for g in argv)]
    ex = {}
    if os.path.exists(OUT):
        ex = json.load(open(OUT))
    with concurrent.futures.ThreadPoolExecutor(WORKERS) as pool:
        for rel, fired, tail in pool.map(run, list(enumerate(rels))):
            if fired is None:
                print("%-44s ERROR %s" % (rel, tail))
                continue
            ex[rel] = fired
            print("%-44s %s" % (rel, ",".join(fired) or "none"))
    ex = {k: v for k, v in sorted(ex.items()) if os.path.exists(os.path.join(HERE, k))}
    with open(OUT, "w") as f:
        json.dump(ex, f, indent=1)
    silent = [k for k, v in ex.items() if not v]
    print("%d patches recorded, %d detected by no check: %s" % (len(ex), len(silent), silent))


if __name__ == "__main__":
    main(sys.argv[1:])
