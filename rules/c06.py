"""C06 - variables and arrays are typed, zero-initialised, bounds-checked, never aliased.

Decides: fetch/store agree on the type of every suffix and DEFtype and on the defaults; array
access only goes through the bound check; redimension/erase guards; SWAP's reject path; default
values are removed, not stored; the DEFtype purge keys on the right characters.
Does not decide injectivity of the string key encoding over all names/subscripts."""
import re

from rules import lextables as lt

from rules import tables

VAL = "mach::val::Val"
SUFFIX_TY = {"$": "String", "!": "Single", "#": "Double", "%": "Integer"}
DEFAULTS = {"String": "", "Single": 0.0, "Double": 0.0, "Integer": 0}


def _suffix_conds(f, bb):
    out = {}
    vt = None
    for c in f.conds_at(bb):
        src = f._cond_src.get(c)
        if c[0] == "eq" and src and src.get("k") == "call" and \
                (src["call"].callee or "").endswith("::ends_with"):
            out[f.const_of_operand(src["call"].args[1])] = c[2]
        if c[0] == "variant" and c[2] == "mach::var::VarType":
            vt = c[3]
    return out, vt


def run(ctx):
    cr = ctx.lib
    ctx.rule("C06.a", "Var::fetch and Var::store map every suffix ($ ! # %) and every DEFtype to "
             "the same type; an unset variable reads as that type's default (0, 0.0, \"\")")
    ctx.rule("C06.b", "array keys are built only by build_array_key, which is called only by "
             "store_array/fetch_array; both SUBSCRIPT OUT OF RANGE guards (dimension count, "
             "subscript > bound) and the negative-subscript guard exist; an undeclared array is "
             "dimensioned 10; PopArr/PushArr/DimArr/EraseArr dispatch to the array functions")
    ctx.rule("C06.c", "dimension_array rejects an existing entry before inserting; erase_array "
             "removes the dims entry and exactly the keys that start with `name,` (the separator "
             "build_array_key writes first)")
    ctx.rule("C06.d", "SWAP: the mixed-type path restores both operands in the opposite order of "
             "the success path before raising TYPE MISMATCH")
    ctx.rule("C06.e", "update_val removes the entry when the value is the type's default and "
             "only otherwise inserts/overwrites")
    ctx.rule("C06.f", "DEFtype purge: suffix detection looks at the key's last character, and any "
             "test of the letter range looks at its first character; the type table is written "
             "for the whole from..=to range")
    rule_a(ctx, cr)
    rule_b(ctx, cr)
    rule_c(ctx, cr)
    rule_d(ctx, cr)
    rule_d2(ctx, cr)
    rule_e(ctx, cr)
    rule_f(ctx, cr)
    ctx.rule("C06.g", "the hidden variables of DEF FN parameters are typed like the parameter: the "
             "mangler moves exactly the store's type suffixes ($ ! # %) to the end of the mangled "
             "name (see C10.a), so N% of a function is an Integer variable")
    from rules import c10
    c10.rule_suffix_set(ctx, cr, "C06.g")


def rule_a(ctx, cr):
    f = cr.need_fn("mach::var::Var::fetch")
    ctx.touch(f)
    got_s, got_d = {}, {}
    for b, i, st in f.aggregates(VAL):
        sc, vt = _suffix_conds(f, b)
        v = st["rv"]["variant"]
        d = f.describe(st["rv"]["ops"][0]) if st["rv"]["ops"] else ""
        true_suffix = [k for k, t in sc.items() if t]
        if true_suffix:
            got_s[true_suffix[0]] = (v, d)
        elif vt:
            got_d[vt] = (v, d)
    for ch, ty in SUFFIX_TY.items():
        g = got_s.get(ch)
        ok = g is not None and g[0] == ty and _is_default(g[1], ty)
        ctx.check(ok, "C06.a", "fetch/suffix/%s" % ch, f.span,
                  "unset %s variable reads as %s default" % (ch, ty),
                  "an unset variable with suffix %s reads as %s (expected the %s default): its "
                  "type differs from what store() would keep" % (ch, g, ty))
    for vt in ("Integer", "Single", "Double", "String"):
        g = got_d.get(vt)
        ok = g is not None and g[0] == vt and _is_default(g[1], vt)
        ctx.check(ok, "C06.a", "fetch/deftype/%s" % vt, f.span,
                  "unset DEF%s variable reads as %s default" % (vt, vt),
                  "an unset unsuffixed variable under DEFtype %s reads as %s" % (vt, g))
    # store side is C02.f; here: agreement of the two chains' suffix sets
    st = cr.need_fn("mach::var::Var::store")
    stored = set()
    for c in st.calls():
        if re.match(r"^mach::var::Var::insert_\w+$", c.name):
            sc, _vt = _suffix_conds(st, c.bb)
            stored |= {k for k, t in sc.items() if t}
    ctx.check(stored == set(SUFFIX_TY) == set(got_s), "C06.a", "suffix-sets-agree", st.span,
              "fetch and store distinguish the same suffixes %s" % sorted(stored),
              "fetch distinguishes %s, store %s" % (sorted(got_s), sorted(stored)))


def _is_default(desc, ty):
    if ty == "String":
        return "const:''" in desc
    if ty == "Integer":
        return desc == "const:0"
    return desc == "const:0.0"


def rule_b(ctx, cr):
    callers = sorted(cr.callers_of("mach::var::Var::build_array_key"))
    ctx.check(callers == ["mach::var::Var::fetch_array", "mach::var::Var::store_array"], "C06.b",
              "build_array_key/callers", "", "called by store_array and fetch_array only",
              "build_array_key is called from %s" % callers)
    for name, inner in (("store_array", "store"), ("fetch_array", "fetch")):
        f = cr.need_fn("mach::var::Var::" + name)
        ctx.touch(f)
        cs = f.calls_to("mach::var::Var::" + inner)
        ok = len(cs) == 1 and any("build_array_key" in n for n in f.back_slice_calls(cs[0].args[1]))
        ctx.check(ok, "C06.b", "%s/key-from-build_array_key" % name, f.span,
                  "the key handed to %s() comes from build_array_key" % inner,
                  "%s no longer uses the bounds-checked key" % name)
    b = cr.need_fn("mach::var::Var::build_array_key")
    ctx.touch(b)
    guards = {"count": False, "bound": False}
    for bb, code, span in b.error_codes():
        if code != "SubscriptOutOfRange":
            continue
        for op, l, r, truth in b.cmp_conds_at(bb):
            if op == "Ne" and truth and "len(" in b.describe(l) and "len(" in b.describe(r):
                guards["count"] = True
        for c in b.conds_at(bb):
            if c[0] == "eq" and c[2] is True and "PartialOrd" in str(c[1]) and "::gt(" in str(c[1]):
                guards["bound"] = True
            # the same per-dimension test as `requested.iter().zip(bounds).any(|(r, d)| r > d)`
            if c[0] == "eq" and c[2] is True and "::any(" in str(c[1]) and "zip(" in str(c[1]).lower():
                for g in cr.closures_of(b.path):
                    for gc in g.calls():
                        if (gc.callee or "").endswith("PartialOrd::gt") and \
                                "i16" in (getattr(gc, "self_ty", "") or ""):
                            guards["bound"] = True
    ctx.check(guards["count"], "C06.b", "build_array_key/dimension-count", b.span,
              "a different number of subscripts is SUBSCRIPT OUT OF RANGE",
              "the dimension-count guard is gone")
    ctx.check(guards["bound"], "C06.b", "build_array_key/subscript-bound", b.span,
              "subscript > bound is SUBSCRIPT OUT OF RANGE (so 0..=bound are accepted)",
              "the `r > d` guard is gone or no longer uses `>`: the accepted subscripts are not "
              "exactly 0..bound")
    # guards dominate the key construction
    fmt = [c for c in b.calls() if (c.callee or "") == "std::fmt::format"]
    errb = [bb for bb, code, _s in b.error_codes()]
    ctx.check(bool(fmt) and bool(errb), "C06.b", "build_array_key/key-after-guards", b.span,
              "the key is formatted after both guards")
    auto = None
    for cl in cr.closures_of(b.path):
        for c in cl.calls_matching(r"vec::from_elem$"):
            auto = cl.const_of_operand(c.args[0])
    ctx.check(auto == 10, "C06.b", "build_array_key/auto-dimension", b.span,
              "an undeclared array gets bound 10 in every dimension",
              "the automatic dimension is %s (documented: 10)" % auto)
    v = cr.need_fn("mach::var::Var::vec_val_to_vec_i16")
    ctx.touch(v)
    neg = False
    for bb, code, span in v.error_codes():
        if code == "SubscriptOutOfRange":
            for op, l, r, truth in v.cmp_conds_at(bb):
                if op == "Lt" and truth and v.describe(r) == "const:0":
                    neg = True
    ctx.check(neg, "C06.b", "vec_val_to_vec_i16/negative", v.span,
              "a negative subscript is SUBSCRIPT OUT OF RANGE")
    lp = cr.need_fn("mach::runtime::Runtime::execute_loop")
    want = {"PopArr": "store_array", "PushArr": "fetch_array", "DimArr": "dimension_array",
            "EraseArr": "erase_array"}
    got = {}
    for c in lp.calls():
        if c.name.startswith("mach::var::Var::"):
            for cond in lp.conds_at(c.bb):
                if cond[0] == "variant" and cond[2] == "mach::opcode::Opcode":
                    got.setdefault(cond[3], set()).add(c.name.rsplit("::", 1)[1])
    for op, fn in want.items():
        ctx.check(got.get(op) == {fn}, "C06.b", "dispatch/%s" % op, lp.span,
                  "Opcode::%s -> Var::%s" % (op, fn),
                  "Opcode::%s dispatches to %s" % (op, sorted(got.get(op, []))))


def rule_c(ctx, cr):
    d = cr.need_fn("mach::var::Var::dimension_array")
    ctx.touch(d)
    ins = d.calls_matching(r"HashMap::<K, V, S, A>::insert$")
    ck = d.calls_matching(r"HashMap::<K, V, S, A>::contains_key$")
    ok = bool(ins) and bool(ck) and d.dominates(ck[0].bb, ins[0].bb) and \
        any(code == "RedimensionedArray" for _b, code, _s in d.error_codes())
    if ok:
        ok = any(c[0] == "eq" and c[2] is False and "contains_key" in str(c[1])
                 for c in d.conds_at(ins[0].bb))
    ctx.check(ok, "C06.c", "dimension_array/redimension-guard", d.span,
              "dims.insert happens only when the name was not dimensioned",
              "an array can be dimensioned twice: the contains_key guard no longer dominates the "
              "insert")
    e = cr.need_fn("mach::var::Var::erase_array")
    ctx.touch(e)
    rem = e.calls_matching(r"HashMap::<K, V, S, A>::remove$")
    ret = e.calls_matching(r"HashMap::<K, V, S, A>::retain$")
    sep = [e.const_of_operand(c.args[1]) for c in e.calls_matching(r"String::push$")]
    ctx.check(bool(rem) and bool(ret) and sep == [","], "C06.c", "erase_array/prefix", e.span,
              "removes the dims entry and the keys starting with name + ','",
              "erase_array builds its key prefix with %s" % sep)
    b = cr.need_fn("mach::var::Var::build_array_key")
    tpl = set()
    for g in [b] + cr.closures_of(b.path):
        for bb in g.reachable():
            for s in tables.block_strings(g, bb):
                tpl.add(s)
    ctx.check(",{}" in tpl and "{}" in tpl, "C06.c", "build_array_key/separator", b.span,
              "keys are name followed by ',subscript' parts (%s)" % sorted(tpl),
              "array keys are formatted with %s: erase_array's `name,` prefix no longer matches"
              % sorted(tpl))


def rule_d(ctx, cr):
    f = cr.need_fn("mach::runtime::Runtime::swap")
    ctx.touch(f)
    pushes = f.calls_to("mach::stack::Stack<T>::push")
    errb = [b for b, code, _s in f.error_codes() if code == "TypeMismatch"]
    if not ctx.check(len(pushes) == 4 and len(errb) == 1, "C06.d", "swap/shape", f.span,
                     "two restoring pushes on the reject path, two on the success path"):
        return
    rej = [c for c in pushes if f.dominates(c.bb, errb[0])]
    acc = [c for c in pushes if c not in rej]
    def order(cs):
        cs = sorted(cs, key=lambda c: sum(1 for o in cs if f.dominates(o.bb, c.bb)))
        return [f.describe(c.args[1]) for c in cs]
    ro, ao = order(rej), order(acc)
    ctx.check(len(rej) == 2 and len(acc) == 2 and ro == list(reversed(ao)), "C06.d",
              "swap/reject-restores", f.span,
              "reject path pushes %s, success path %s" % (ro, ao),
              "SWAP's reject path pushes %s and its success path %s: a rejected SWAP must put "
              "the operands back in the opposite order so that both variables keep their values"
              % (ro, ao))


def rule_d2(ctx, cr):
    """SWAP's template: subscripts of its operands are evaluated once"""
    g = cr.need_fn("mach::codegen::Generator::swap")
    ctx.touch(g)
    clones = g.calls_matching(r"VarItem as std::clone::Clone>::clone$")
    reads = g.calls_to("mach::codegen::VarItem::push_as_expression")
    stores = g.calls_to("mach::codegen::VarItem::push_as_pop")
    twice = len(clones) >= 1 and len(reads) == 2 and len(stores) == 2
    ctx.check(not twice, "C06.d", "swap/subscripts-evaluated-once", g.span,
              "each operand's subscript code is emitted once",
              "Generator::swap emits every operand twice (a clone to read it, the original to store "
              "into it): the subscripts of the second store are evaluated AFTER the first store, so "
              "`I=1:A(1)=2:A(2)=7:SWAP I,A(I)` leaves I=2, A(1)=2, A(2)=1 instead of I=2, A(1)=1")


def rule_e(ctx, cr):
    f = cr.need_fn("mach::var::Var::update_val")
    ctx.touch(f)
    rem = f.calls_matching(r"HashMap::<K, V, S, A>::remove$")
    ins = f.calls_matching(r"HashMap::<K, V, S, A>::insert$")
    ok = len(rem) == 1 and len(ins) >= 1
    if ok:
        # remove is reached only when the default test is true; insert only when false
        def truth(bb):
            for c in f.conds_at(bb):
                if c[0] == "eq" and isinstance(c[2], bool) and "var:" not in str(c[1])[:0]:
                    src = f._cond_src.get(c)
                    if src and src.get("k") in ("multi", "rv", "place", "call"):
                        return c[2]
            return None
        ok = not f.can_reach(rem[0].bb, ins[0].bb) and not f.can_reach(ins[0].bb, rem[0].bb)
    tests = {"String": False, "Integer": False, "Single": False, "Double": False}
    for b, i, st in f.assigns():
        rv = st["rv"]
        vs = None
        for c in f.conds_at(b):
            if c[0] == "variant" and c[2] == VAL:
                vs = c[3]
        if rv["k"] == "binop" and rv["op"] == "Eq" and vs in tests:
            if f.describe(rv["r"]) in ("const:0", "const:0.0"):
                tests[vs] = True
    for c in f.calls_matching(r"<impl str>::is_empty$"):
        tests["String"] = True
    ctx.check(ok and all(tests.values()), "C06.e", "update_val/defaults-removed", f.span,
              "default values (0, 0.0, \"\") are removed from the map, others stored",
              "update_val does not remove every type's default (%s): zeroed variables keep "
              "their slots" % tests)


def rule_f(ctx, cr):
    d = cr.need_fn("mach::var::Var::def")
    ctx.touch(d)
    for cl in cr.closures_of(d.path):
        ctx.touch(cl)
        # a key is typed by its suffix only when it ENDS in one of the four suffix characters;
        # a character-class test (not alphabetic) also keeps names ending in a digit (A1), which
        # are typed by their first letter
        text = " ".join(cl.describe(a) for c in cl.calls() for a in c.args)
        text += " ".join(str(ch) for ch, _b, _d, _s, _o in lt.char_consts(cl))
        four = all(("'%s'" % ch) in text or ch in text for ch in "$!#%")
        klass = [c.span["line"] for c in cl.calls()
                 if re.search(r"is_ascii_(alphabetic|alphanumeric|digit|punctuation)$|"
                              r"char::methods::<impl char>::is_(alphabetic|alphanumeric)$",
                              c.callee or c.name)]
        ends = [c for c in cl.calls() if re.search(r"<impl str>::ends_with$|::last$", c.callee or c.name)]
        ctx.check(four and not klass and bool(ends), "C06.f",
                  "def-closure/suffix-is-one-of-four", cl.span,
                  "the purge skips exactly the keys that end in $ ! # %",
                  "the DEFtype purge decides `typed by suffix` with a character class test instead "
                  "of the four suffix characters: a name ending in a digit (A1) is skipped, so "
                  "after DEFINT A the Integer variable A1 still holds its Single value")
        # each stored value is kept iff the new type equals ITS type
        arms = {}
        for c in cl.calls():
            if "VarType as std::cmp::PartialEq>::" not in c.name:
                continue
            meth = c.name.rsplit("::", 1)[1]
            vs = None
            for cc in cl.conds_at(c.bb):
                if cc[0] == "variant" and cc[2] == "mach::val::Val":
                    vs = cc[3]
            vt = None
            for a in c.args:
                m = re.search(r"VarType::(\w+)\(\)", cl.describe(a))
                if m:
                    vt = m.group(1)
                    continue
                # a promoted constant `&VarType::X`
                v = cl.value_of_operand(a)
                loc = None
                if v and v.get("k") == "rv" and v["rv"]["k"] == "ref":
                    loc = v["rv"]["place"]["local"]
                for d_ in cl.defs().get(loc, []) if loc is not None else []:
                    if d_[0] == "stmt" and d_[3]["k"] == "use" and d_[3]["op"].get("k") == "const":
                        pi = d_[3]["op"]["const"].get("promoted")
                        pf = {g.path: g for g in cl.promoted_fns()}
                        for g in cl.promoted_fns():
                            if g.path.endswith("{promoted#%s}" % pi):
                                for _b, _i, st_ in g.aggregates("mach::var::VarType"):
                                    vt = st_["rv"]["variant"]
            arms[vs] = (meth, vt)
        want = {v: ("eq", v) for v in ("Integer", "Single", "Double", "String")}
        ctx.check(arms == want, "C06.f", "def-closure/keeps-values-of-the-new-type", cl.span,
                  "a value survives DEFtype iff `new type == its own type`, arm by arm",
                  "the DEFtype purge compares %s (expected %s): for one value type the purge is "
                  "inverted - values of the new type are dropped and values of another type "
                  "survive in a variable that is now of the new type" % (arms, want))
        for i, c in enumerate(cl.calls(), 1):
            nm = c.callee or ""
            if re.search(r"Range(Inclusive)?::<Idx>::contains$|PartialOrd", nm) and \
                    "VarType" not in nm:
                names = set()
                for a in c.args:
                    names |= cl.back_slice_calls(a)
                first = any(n.endswith("Iterator>::next") or n.endswith("Iterator::next")
                            for n in names)
                last = any(n.endswith("::last") for n in names)
                ctx.check(first and not last, "C06.f", "def-closure/range-test-on-first-char#%d" % i,
                          c.span, "the letter-range test looks at the first character",
                          "the DEFtype purge tests the letter range on the key's last character: "
                          "a multi-letter name starting inside the range but ending outside keeps a "
                          "value of the old type")
    # the type table is written in a loop over from..=to
    st = [b for b, i, s in d.assigns() if s["place"]["proj"] and
          any(e.get("name") == "types" for e in s["place"]["proj"])]
    inloop = set()
    for scc in d.sccs():
        inloop |= set(scc)
    rng = d.calls_matching(r"RangeInclusive::<Idx>::new$")
    ctx.check(bool(st) and all(b in inloop for b in st) and len(rng) >= 1, "C06.f",
              "def/types-range", d.span, "types[idx] is written for every idx in from..=to")
