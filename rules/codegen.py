"""Rules over the code generator / linker shared by C01, C09, C10, C18, C20."""
import re

from lib.mir import op_place
from rules.progress import receiver_local

GEN_PREFIX = "mach::codegen::Generator::"
POPS = re.compile(r"^mach::stack::Stack<T>::(pop|pop_n)$")
# calls that consume a code fragment (a Link or a (Column, Link) / VarItem holding one)
CONSUMERS = re.compile(
    r"^(mach::link::Link::(append|push_while|push_def_fn)|"
    r"mach::codegen::VarItem::push_as_(dim|pop|pop_unary|expression)|"
    r"<std::option::Option<u16> as std::convert::TryFrom<&mach::link::Link>>::try_from|"
    r"<std::rc::Rc<str> as std::convert::TryFrom<&mach::link::Link>>::try_from|"
    r"mach::codegen::Generator::expr_pop_line_number|"
    r"mach::link::Link::transform_to_data)$")


PASS_THROUGH = re.compile(r"(Try>?::branch|IntoIterator>?::into_iter|Iterator>?::(next|rev)|"
                          r"Clone>?::clone|Deref>?::deref|Vec::<T, A>::drain|Stack<T>::drain)$")


def generator_fns(cr):
    return sorted([f for p, f in cr.fns.items()
                   if p.startswith(GEN_PREFIX) and "{closure" not in p], key=lambda f: f.path)


def _stack_field(f, call):
    """which generator stack a pop call reads: expr / stmt / var (from the receiver place)"""
    _rl, rs = receiver_local(f, call)
    if rs is None:
        return None
    m = re.search(r"\.(expr|stmt|var)$", rs)
    return m.group(1) if m else None


def _err_exits(f):
    out = set()
    for b in f.reachable():
        c = f.call_at(b)
        if c is not None and (c.callee or "").endswith("FromResidual::from_residual"):
            out.add(b)
        for st in f.blocks[b]["stmts"]:
            if st["k"] == "assign" and st["rv"]["k"] == "aggregate" and \
                    st["rv"].get("variant") == "Err" and st["place"]["local"] == 0:
                out.add(b)
    return out


def _uses_of(f, root_local, depth=0, seen=None):
    """blocks where a value derived (by move/copy/field/ref/iteration) from root_local is handed
    to a consuming call; follows moves through locals, tuple fields, into_iter()/next() and
    Try::branch"""
    if seen is None:
        seen = set()
    if root_local in seen or depth > 40:
        return set(), set()
    seen.add(root_local)
    consumed = set()
    derived = set()
    for b in f.reachable():
        for st in f.blocks[b]["stmts"]:
            if st["k"] != "assign":
                continue
            rv = st["rv"]
            srcs = []
            if rv["k"] == "use":
                srcs = [rv["op"]]
            elif rv["k"] == "ref":
                srcs = [{"k": "copy", "place": rv["place"]}]
            elif rv["k"] == "aggregate":
                srcs = rv["ops"]
            for o in srcs:
                p = op_place(o)
                if p is not None and p["local"] == root_local and not st["place"]["proj"]:
                    derived.add(st["place"]["local"])
        c = f.call_at(b)
        if c is None:
            continue
        uses = [a for a in c.args if op_place(a) is not None and op_place(a)["local"] == root_local]
        if not uses:
            continue
        nm = c.name
        if CONSUMERS.match(nm) or CONSUMERS.match(c.callee or ""):
            consumed.add(b)
        elif PASS_THROUGH.search(nm) or PASS_THROUGH.search(c.callee or ""):
            if not c.dest["proj"]:
                derived.add(c.dest["local"])
    for d in derived:
        c2, _ = _uses_of(f, d, depth + 1, seen)
        consumed |= c2
    return consumed, derived


def check_linear(ctx, rule, cr):
    """every fragment popped from gen.expr / gen.stmt is consumed on every Ok path"""
    n = 0
    for f in generator_fns(cr):
        pops = [c for c in f.calls() if POPS.match(c.name) and _stack_field(f, c) in ("expr", "stmt")]
        # fragments handed back by helper functions of the code generator
        helpers = [c for c in f.calls()
                   if c.name.startswith("mach::codegen::") and not c.dest["proj"]
                   and "mach::link::Link" in f.local_ty(c.dest["local"])
                   and not CONSUMERS.match(c.name)]
        pops = pops + helpers
        if not pops:
            continue
        ctx.touch(f)
        errs = _err_exits(f)
        rets = set(f.return_blocks())
        for i, c in enumerate(pops, 1):
            n += 1
            kind = _stack_field(f, c) or "helper"
            key = "%s/%s-pop#%d/consumed" % (f.path, kind, i)
            if c.dest["proj"]:
                ctx.bad(rule, key, c.span, "popped fragment stored through a projection")
                continue
            consumed, _der = _uses_of(f, c.dest["local"])
            if not consumed:
                ctx.bad(rule, key, c.span,
                        "a code fragment is popped from the %s stack and never appended or read: "
                        "the statement's code (or DATA constants) is silently dropped" % kind)
                continue
            is_n = c.name.endswith("pop_n")
            count_op = c.args[1] if is_n and len(c.args) > 1 else None
            if is_n:
                nexts = _derived_next_calls(f, c.dest["local"])
                stop = {x.bb for x in nexts}
                leak = _reaches_ok_return(f, c.target, stop | consumed, errs, rets, count_op)
                what = "is never iterated on some successful path"
                if not leak:
                    for nx in nexts:
                        some = _some_target(f, nx)
                        if some is None:
                            continue
                        if _reaches(f, some, {nx.bb} | rets, consumed | errs):
                            leak = True
                            what = "has a loop iteration that skips the append"
            else:
                leak = _reaches_ok_return(f, c.target, consumed, errs, rets, None)
                what = "can reach a successful return without being appended or read"
            ctx.check(not leak, rule, key, c.span,
                      "the popped %s fragment(s) reach append/try_from on every successful path" % kind,
                      "a %s fragment popped here %s: on that path the code (or the DATA constants "
                      "it carries) of a sub-statement is dropped" % (kind, what))
    return n


def _derived_next_calls(f, root):
    out = []
    seen = set()

    def walk(l, depth=0):
        if l in seen or depth > 40:
            return
        seen.add(l)
        for b in f.reachable():
            for st in f.blocks[b]["stmts"]:
                if st["k"] != "assign" or st["place"]["proj"]:
                    continue
                rv = st["rv"]
                srcs = [rv["op"]] if rv["k"] == "use" else (
                    [{"k": "copy", "place": rv["place"]}] if rv["k"] == "ref" else [])
                for o in srcs:
                    p = op_place(o)
                    if p is not None and p["local"] == l:
                        walk(st["place"]["local"], depth + 1)
            c = f.call_at(b)
            if c is None or not any(op_place(a) is not None and op_place(a)["local"] == l
                                    for a in c.args):
                continue
            if re.search(r"Iterator>?::next$", c.name):
                out.append(c)
            elif PASS_THROUGH.search(c.name) and not c.dest["proj"]:
                walk(c.dest["local"], depth + 1)
    walk(root)
    return out


def _some_target(f, call):
    dest = f.cplace(call.dest)
    tb = call.target
    seen = set()
    while tb is not None and tb not in seen:
        seen.add(tb)
        t = f.term(tb)
        if t["k"] == "switch":
            for s, conds in f.edge_conds(tb).items():
                for c in conds:
                    if c[0] == "variant" and c[1] == dest and c[3] == "Some":
                        return s
            return None
        succ = f.succ(tb)
        tb = succ[0] if len(succ) == 1 else None
    return None


def _reaches(f, start, targets, avoid):
    seen = set()
    stack = [start]
    while stack:
        b = stack.pop()
        if b in seen or b in avoid:
            continue
        if b in targets:
            return True
        seen.add(b)
        stack.extend(f.succ(b))
    return False


def _reaches_ok_return(f, start, avoid, errs, rets, count_op):
    seen = set()
    stack = [start] if start is not None else []
    while stack:
        b = stack.pop()
        if b in seen or b in avoid or b in errs:
            continue
        seen.add(b)
        if b in rets:
            return True
        ec = f.edge_conds(b)
        for s in f.succ(b):
            skip = False
            if count_op is not None:
                for cond in ec.get(s, ()):
                    src = f._cond_src.get(cond)
                    if cond[0] == "eq" and cond[2] is True and src and \
                            src.get("k") == "rv" and src["rv"]["k"] == "binop" and \
                            src["rv"]["op"] == "Eq" and \
                            f.describe(src["rv"]["r"]) == "const:0" and \
                            f.same_origin(src["rv"]["l"], count_op):
                        skip = True
            if not skip:
                stack.append(s)
    return False


def check_program_end(ctx, rule, cr):
    """Program::link: the stored program ends in an End opcode that no label can jump past"""
    f = cr.need_fn("mach::program::Program::link")
    ctx.touch(f)
    pushes = []
    for c in f.calls_to("mach::link::Link::push"):
        sv = f.stored_variant(f.value_of_operand(c.args[1]))
        if sv and sv[1] == "End":
            pushes.append(c)
    lk = f.calls_to("mach::link::Link::link")
    if not ctx.check(len(pushes) == 1 and len(lk) == 1, rule, "Program::link/appends-End", f.span,
                     "link() appends an End and then resolves the symbols"):
        return
    rets = set(f.return_blocks())
    ctx.check(not (f.reach_set(0, avoid={lk[0].bb}) & rets), rule,
              "Program::link/always-resolves", lk[0].span,
              "Link::link() runs on every call of Program::link",
              "Program::link can return without calling Link::link: unresolved references and "
              "WHILE/WEND records of the program stay queued and are resolved during the next "
              "direct line's link, whose statement is then refused with the program's errors")
    ctx.check(f.can_reach(pushes[0].bb, lk[0].bb), rule, "Program::link/End-before-resolution",
              f.span, "the End is appended before symbols are resolved")
    hsa = [c for c in f.calls() if c.name == "mach::link::Link::has_symbol_at"
           and "Link::len" in f.describe(c.args[1])]
    avoid = {pushes[0].bb} | {c.bb for c in hsa}
    avoid |= _flag_blocks_leading_to(f, pushes[0].bb, lk[0].bb)
    skipped_blind = lk[0].bb in f.reach_set(0, avoid=avoid)
    h = cr.need_fn("mach::link::Link::has_symbol_at")
    fam = [h] + list(cr.closures_of(h.path))
    its = [c.name for g in fam for c in g.calls() if "BTreeMap" in c.name or "btree" in c.name]
    whole = [n for n in its if re.search(r"BTreeMap::<K, V, A>::(values|iter)$", n)]
    part = [n for n in its if re.search(r"::(range|range_mut|split_off|first_key_value|"
                                        r"last_key_value|get)$", n)]
    ctx.check(bool(whole) and not part, rule, "has_symbol_at/whole-table", h.span,
              "scans every symbol: line symbols and local labels",
              "has_symbol_at no longer looks at the whole symbol table (%s): a last line that "
              "emits no code (REM, DATA) has its line symbol past the final End, and a branch to "
              "it would run into the direct line's code" % sorted(set(part) or set(its)))
    ctx.check(bool(hsa) and not skipped_blind, rule, "Program::link/no-label-past-last-End",
              pushes[0].span,
              "the End is only omitted after checking that no label points past the last opcode",
              "Program::link omits the final End whenever the last opcode is already an End, "
              "without checking for a label behind it: a program ending in `IF c THEN END` falls "
              "through into the direct line's code when c is false (behaviour depends on whether "
              "another line follows)")


def _flag_blocks_leading_to(f, push_bb, lk_bb):
    """blocks that assign a constant to a bool local which a later switch tests, where that
    constant selects the edge that cannot skip push_bb (`let needs = a || b; if needs {push}`
    lowers to needs=true / needs=b() blocks joined in front of one switch)."""
    from lib.mir import op_place, op_const, const_val
    out = set()
    defs = f.defs()
    for sb in f.reachable():
        t = f.term(sb)
        if t["k"] != "switch":
            continue
        p = op_place(t["discr"])
        if p is None or p["proj"]:
            continue
        root = p["local"]
        seen = set()
        while root not in seen:           # follow `_t = copy flag`
            seen.add(root)
            ds = defs.get(root, [])
            nxt = None
            if len(ds) == 1 and ds[0][0] == "stmt" and ds[0][3]["k"] == "use":
                q = op_place(ds[0][3]["op"])
                if q is not None and not q["proj"]:
                    nxt = q["local"]
            if nxt is None:
                break
            root = nxt
        edges = {val: tb for val, tb in t["targets"]}
        for d in defs.get(root, []):
            if d[0] != "stmt" or d[3]["k"] != "use":
                continue
            c = op_const(d[3]["op"])
            if c is None:
                continue
            v = const_val(c)
            v = 1 if v is True else 0 if v is False else v
            tb = edges.get(v, t["otherwise"])
            if lk_bb not in f.reach_set(tb, avoid={push_bb}):
                out.add(d[1])
    return out


def check_all_statements_compiled(ctx, rule, cr):
    """Visitor::accept: the loop that hands the statements of a line to the generator runs to the
    end of the line - its only exit is the iterator running dry"""
    f = cr.need_fn("mach::codegen::Visitor<'a>::accept")
    ctx.touch(f)
    acc = [c for c in f.calls() if c.name.endswith("lang::ast::AcceptVisitor>::accept")
           and "Statement" in c.name]
    if not acc:
        # `ast.iter().for_each(|s| s.accept(..))`: for_each cannot stop early
        inner = [g for g in cr.closures_of(f.path)
                 if any(c.name.endswith("lang::ast::AcceptVisitor>::accept") and "Statement" in c.name
                        for c in g.calls())]
        fe = f.calls_matching(r"Iterator::for_each$")
        if inner and fe:
            ctx.ok(rule, "Visitor::accept/every-statement-compiled", fe[0].span,
                   "the statements are visited with Iterator::for_each, which has no early exit")
            return
    if not ctx.check(len(acc) == 1, rule, "Visitor::accept/statement-loop", f.span,
                     "one loop visits the statements of the line"):
        return
    scc = None
    for sc in f.sccs():
        if acc[0].bb in sc:
            scc = set(sc)
    nexts = [c for c in f.calls() if c.bb in (scc or ()) and
             (c.name.endswith("Iterator>::next") or c.name.endswith("Iterator::next"))]
    ok = scc is not None and len(nexts) == 1
    if ok:
        exits = [b for b in scc if any(s not in scc and not f.is_unreachable_block(s)
                                       and f.blocks[s].get("cleanup") is not True
                                       for s in f.succ(b))]
        # the only block leaving the loop is the switch on next()'s result
        sw = nexts[0].target
        ok = set(exits) <= {sw}
    ctx.check(ok, rule, "Visitor::accept/every-statement-compiled", acc[0].span,
              "the statement loop ends only when the line's statements are exhausted",
              "the loop over a line's statements can stop early (a `break` after some statement "
              "kind): statements after it on the same line are never compiled, so a DATA after "
              "`GOTO n:` disappears and a WEND there leaves its WHILE unmatched - behaviour then "
              "depends on whether the statements share a line")


def check_always_links(ctx, rule, cr):
    f = cr.need_fn("mach::program::Program::link")
    ctx.touch(f)
    lk = f.calls_to("mach::link::Link::link")
    ok = len(lk) == 1 and not (f.reach_set(0, avoid={lk[0].bb}) & set(f.return_blocks()))
    ctx.check(ok, rule, "Program::link/always-resolves", f.span,
              "the program's references are resolved (and their errors attributed) by the "
              "program's own link, on every call",
              "Program::link can skip Link::link: the program's UNDEFINED LINE / WHILE WITHOUT WEND "
              "diagnostics surface while the next direct line is linked and are reported as that "
              "line's errors")
