"""C09 - READ consumes DATA in source order; RESTORE and RUN reposition it.

Decides: DATA constants reach the data segment in source order on every codegen path; data
addresses travel with their symbols; RESTORE is patched with the data address; the pointer is
rewound by CLEAR/RUN; reading past the end is OUT OF DATA; READ stores like assignment.
Does not decide the values delivered for a given layout."""
import re

from rules import codegen, c01


def run(ctx):
    cr = ctx.lib
    ctx.rule("C09.a", "Generator::data walks its popped constants forward (no reversal), turns "
             "each into a data item (transform_to_data) and then appends it; Stack::pop_n keeps "
             "order; transform_to_data pushes onto the data stack")
    ctx.rule("C09.b", "symbols carry (code address, data address) and Link::link gives Restore the "
             "data component (see C01.a/b, re-checked here)")
    ctx.rule("C09.c", "RESTORE without a line keeps data address 0; the RESTORE handler passes its "
             "operand to restore_data; CLEAR rewinds with restore_data(0); RUN compiles to Clear+Jump")
    ctx.rule("C09.d", "Link::read_data: an index past the end is OUT OF DATA and data_pos advances "
             "only when an item was delivered")
    ctx.rule("C09.e", "READ, LET and INPUT all store through VarItem::push_as_pop, whose only "
             "outputs are Pop / PopArr")
    ctx.rule("C09.f", "every popped fragment (so every DATA constant, wherever the DATA statement "
             "sits: after THEN, after ELSE, after ':') is consumed on every successful codegen path")
    rule_a(ctx, cr)
    rule_bc(ctx, cr)
    rule_restore_unconditional(ctx, cr)
    # the RESTORE operand travels as a line number 0..65529: no narrowing on the way (C08.c form)
    from rules import c08

    class _P:
        def __init__(self, c):
            self.c = c

        def __getattr__(self, n):
            return getattr(self.c, n)

        def check(self, cond, rule, key, *a, **k):
            return self.c.check(cond, "C09.c", key, *a, **k)

        def bad(self, rule, key, *a, **k):
            return self.c.bad("C09.c", key, *a, **k)
    for path in ("lang::ast::Statement::restore", "mach::codegen::Generator::restore"):
        g = cr.need_fn(path)
        ctx.touch(g)
        c08.rule_c(_P(ctx), g)
    ctx.ok("C09.c", "restore/operand-not-narrowed", "", "no unguarded narrowing cast on the "
           "RESTORE operand's way from the parser to push_restore")
    from rules import c20 as _c20, common as _common
    _c20.rule_d(_common.Proxy(ctx, "C09.b"), cr)
    rule_d(ctx, cr)
    rule_e(ctx, cr)
    ctx.rule("C09.g", "the data segment belongs to the stored program: a direct-mode line cannot add "
             "constants to it (Link::append refuses a fragment carrying DATA once the direct part "
             "has begun, before it appends anything - see C04.e)")
    from rules import c04

    class _P4:
        def __init__(self, c):
            self.c = c

        def __getattr__(self, n):
            return getattr(self.c, n)

        def check(self, cond, rule, key, *a, **k):
            return self.c.check(cond, "C09.g", key, *a, **k)

        def floor(self, rule, *a, **k):
            return self.c.floor("C09.g", *a, **k)
    c04.rule_e(_P4(ctx), cr)
    codegen.check_all_statements_compiled(ctx, "C09.f", cr)
    n = codegen.check_linear(ctx, "C09.f", cr)
    ctx.floor("C09.f", "fragment pops in generators", n, 27)


def rule_a(ctx, cr):
    f = cr.need_fn("mach::codegen::Generator::data")
    ctx.touch(f)
    rev = f.calls_matching(r"Iterator>?::rev$")
    td = f.calls_to("mach::link::Link::transform_to_data")
    ap = f.calls_to("mach::link::Link::append")
    ok = not rev and len(td) == 1 and len(ap) == 1 and f.dominates(td[0].bb, ap[0].bb)
    ctx.check(ok, "C09.a", "Generator::data/forward-transform-append", f.span,
              "constants are transformed and appended in source order",
              "Generator::data %s" % ("reverses its constants" if rev else
                                      "no longer transforms each constant before appending it"))
    pn = cr.need_fn("mach::stack::Stack<T>::pop_n")
    ctx.touch(pn)
    ctx.check(not pn.calls_matching(r"Iterator>?::rev$") and
              bool(pn.calls_to("mach::stack::Stack<T>::drain")), "C09.a", "Stack::pop_n/keeps-order",
              pn.span, "pop_n drains the tail in order")
    t = cr.need_fn("mach::link::Link::transform_to_data")
    ctx.touch(t)
    pushes = [c for c in t.calls_to("mach::stack::Stack<T>::push")
              if t.describe(c.args[0]).endswith(".data")]
    ctx.check(len(pushes) == 2, "C09.a", "transform_to_data/pushes-data", t.span,
              "a literal (or negated literal) becomes one data item (%d push sites)" % len(pushes))
    ctx.check(bool(t.calls_to("mach::operation::Operation::negate")), "C09.a",
              "transform_to_data/negative-literal", t.span, "-literal is negated at compile time")
    rule_transform_consumes(ctx, cr, "C09.a")
    codes = {c for _b, c, _s in t.error_codes()}
    ctx.check("SyntaxError" in codes, "C09.a", "transform_to_data/non-literal", t.span,
              "anything else is a SYNTAX ERROR")


def rule_bc(ctx, cr):
    c01.rule_b(ctx.__class__.__new__(ctx.__class__), cr) if False else None
    lk = cr.need_fn("mach::link::Link::link")
    ctx.touch(lk)
    restore_payload = None
    for b, i, st in lk.aggregates("mach::opcode::Opcode", "Restore"):
        restore_payload = lk.describe(st["rv"]["ops"][0])
    ctx.check(restore_payload is not None and restore_payload.endswith(".1"), "C09.b",
              "link/Restore-gets-data-address", lk.span,
              "Restore is patched with the symbol's data address",
              "Restore is patched with %s (the code address): RESTORE n would index the data "
              "segment with a code address" % restore_payload)
    ps = cr.need_fn("mach::link::Link::push_symbol")
    ins = ps.calls_matching(r"BTreeMap::<K, V, A>::insert$")
    d = []
    if ins:
        v = ps.value_of_operand(ins[0].args[2])
        if v and v.get("k") == "rv" and v["rv"].get("agg") == "tuple":
            d = [ps.describe(o) for o in v["rv"]["ops"]]
    ctx.check(len(d) == 2 and ".data" in d[1], "C09.b", "push_symbol/data-address", ps.span,
              "a line symbol remembers data.len() at that point")
    pr = cr.need_fn("mach::link::Link::push_restore")
    ctx.touch(pr)
    ph = c01.placeholder_pushes(pr)
    ctx.check(len(ph) == 1 and ph[0][1] == "Restore", "C09.c", "push_restore/zero-default", pr.span,
              "RESTORE emits Restore(0); only a given line number registers a patch")
    lp = cr.need_fn("mach::runtime::Runtime::execute_loop")
    okr = False
    for c in lp.calls_to("mach::runtime::Runtime::restore"):
        for cond in lp.conds_at(c.bb):
            if cond[0] == "variant" and cond[2] == "mach::opcode::Opcode" and cond[3] == "Restore":
                okr = "Restore" in lp.describe(c.args[1])
    ctx.check(okr, "C09.c", "dispatch/Restore-passes-operand", lp.span,
              "Opcode::Restore(addr) calls restore(addr)")
    rs = cr.need_fn("mach::runtime::Runtime::restore")
    c = rs.calls_to("mach::program::Program::restore_data")
    ctx.check(len(c) == 1 and rs.describe(c[0].args[1]) == "arg:2", "C09.c",
              "Runtime::restore/forwards", rs.span, "restore(addr) -> restore_data(addr)")
    cl = cr.need_fn("mach::runtime::Runtime::clear")
    rd = [x for x in cl.calls_to("mach::program::Program::restore_data")
          if cl.const_of_operand(x.args[1]) == 0]
    ctx.check(bool(rd), "C09.c", "Runtime::clear/rewinds", cl.span, "CLEAR (and so RUN) rewinds to 0")


def rule_restore_unconditional(ctx, cr):
    f = cr.need_fn("mach::link::Link::restore_data")
    ctx.touch(f)
    st = [b for b, s_, v in f.field_stores("data_pos") if f.describe_value(v).startswith("arg:")]
    rets = [b for b in f.reachable() if f.term(b)["k"] == "return"]
    ok = len(st) == 1 and not (set(rets) & f.reach_set(0, avoid={st[0]})) if st else False
    ctx.check(ok, "C09.c", "Link::restore_data/unconditional", f.span,
              "data_pos = addr on every path (an address equal to the data length is legal: "
              "RESTORE to a line with no DATA at or after it makes the next READ fail)",
              "restore_data can return without moving the pointer: RESTORE n to a line after the "
              "last DATA constant is ignored and READ keeps delivering old constants instead of "
              "OUT OF DATA")


def rule_d(ctx, cr):
    f = cr.need_fn("mach::link::Link::read_data")
    ctx.touch(f)
    get = f.calls_to("mach::stack::Stack<T>::get")
    ok = len(get) == 1 and ".data" in f.describe(get[0].args[0]) and \
        "data_pos" in f.describe(get[0].args[1])
    ctx.check(ok, "C09.d", "read_data/indexes-data-at-data_pos", f.span, "data.get(data_pos)")
    dest = f.cplace(get[0].dest) if get else ""
    none_codes = [c for b, c, _s in f.error_codes() if f.variant_at(b, dest) == "None"]
    ctx.check(none_codes == ["OutOfData"], "C09.d", "read_data/out-of-data", f.span,
              "no item -> OUT OF DATA", "past the last item read_data raises %s" % none_codes)
    st = f.field_stores("data_pos")
    oks = len(st) == 1 and f.variant_at(st[0][0], dest) == "Some" and \
        re.search(r"data_pos Add(WithOverflow)? const:1\)", f.describe_value(st[0][2]) or "")
    ctx.check(bool(oks), "C09.d", "read_data/advance-on-some", f.span,
              "data_pos += 1 only when an item was delivered",
              "data_pos is advanced %s" % [(f.variant_at(b, dest), f.describe_value(v))
                                           for b, _s, v in st])
    rr = cr.need_fn("mach::runtime::Runtime::read")
    ctx.check(bool(rr.calls_to("mach::program::Program::read_data")) and
              bool(rr.calls_to("mach::stack::Stack<T>::push")), "C09.d", "Runtime::read/pushes-item",
              rr.span, "READ pushes the next data item")


def rule_e(ctx, cr):
    for name in ("read", "let", "input"):
        g = cr.need_fn("mach::codegen::Generator::" + name)
        ctx.touch(g)
        ctx.check(bool(g.calls_to("mach::codegen::VarItem::push_as_pop")), "C09.e",
                  "Generator::%s/stores-through-push_as_pop" % name, g.span,
                  "%s stores through the same emitter as assignment" % name.upper())
    p = cr.need_fn("mach::codegen::VarItem::push_as_pop")
    ctx.touch(p)
    kinds = set()
    for c in p.calls_to("mach::link::Link::push"):
        sv = p.stored_variant(p.value_of_operand(c.args[1]))
        if sv:
            kinds.add(sv[1])
    ctx.check(kinds == {"Literal", "PopArr", "Pop"}, "C09.e", "push_as_pop/outputs", p.span,
              "emits Pop, or index code + count + PopArr (%s)" % sorted(kinds))
    rd = cr.need_fn("mach::codegen::Generator::read")
    pushes = [c for c in rd.calls_to("mach::link::Link::push")]
    pap = rd.calls_to("mach::codegen::VarItem::push_as_pop")
    okr = len(pushes) == 1 and len(pap) == 1 and rd.dominates(pushes[0].bb, pap[0].bb)
    ctx.check(okr, "C09.e", "Generator::read/Read-then-store", rd.span,
              "each variable gets Read followed by its store")


def rule_transform_consumes(ctx, cr, rid):
    """a DATA constant moves from the fragment's code to its data: nothing stays in the code"""
    t = cr.need_fn("mach::link::Link::transform_to_data")
    ctx.touch(t)
    pushes = [c for c in t.calls_to("mach::stack::Stack<T>::push")
              if t.describe(c.args[0]).endswith(".data")]
    empt = [c for c in t.calls() if re.search(r"Stack<T>::(drain|clear)$", c.name)
            and t.describe(c.args[0]).endswith(".ops")]
    peeks = [c for c in t.calls() if re.search(r"Stack<T>::(last|get|get_mut)$", c.name)
             and t.describe(c.args[0]).endswith(".ops")]
    ok = bool(pushes) and all(any(t.dominates(e.bb, p_.bb) for e in empt) for p_ in pushes) \
        and not peeks
    ctx.check(ok, rid, "transform_to_data/consumes-code", t.span,
              "every constant pushed to the data segment comes from a drained (emptied) code "
              "fragment",
              "transform_to_data reads an opcode of the fragment without removing it (%s): the "
              "Literal stays in the DATA line's code, and every pass over that line pushes a "
              "value on the runtime stack that nothing pops"
              % [c.name.rsplit("::", 1)[1] for c in peeks] if peeks else
              "transform_to_data no longer empties the fragment's code before it pushes the "
              "constant to the data segment")
