"""C18 - memory pools are bounded at 64K and completed statements leave nothing behind.

Decides: every growth of a pool is followed by its limit check; the growable containers of
the interpreter state are inventoried with their bounds; OUT OF MEMORY cannot leave a full
stack behind; defaults free their slots; frame markers pushed by a statement template are
consumed on its fall-through path (ON..GOSUB). The full template balance is the thorough
tier's scheme analysis."""
import re

GROW = re.compile(r"^std::vec::Vec::<T, A>::(push|append|insert|extend|extend_from_slice|resize)$")
STRUCTS = ["mach::runtime::Runtime", "mach::var::Var", "mach::program::Program",
           "mach::link::Link", "mach::listing::Listing", "mach::stack::Stack"]
CONTAINER = re.compile(r"(Vec<|HashMap<|BTreeMap<|VecDeque<|String\b|mach::stack::Stack<|Rc<str>)")
BOUNDS = {
    "mach::runtime::Runtime.prompt": "config string set by the embedding program",
    "mach::runtime::Runtime.stack": "Stack: limit-checked on every push (C18.a)",
    "mach::runtime::Runtime.functions": "one entry per DEF statement executed: bounded by the code pool",
    "mach::runtime::Runtime.listing": "see Listing.source",
    "mach::runtime::Runtime.program": "see Program / Link",
    "mach::runtime::Runtime.vars": "see Var",
    "mach::runtime::Runtime.state": "enum; RuntimeError holds one Error, Listing one range",
    "mach::runtime::Runtime.cont": "enum; same shape as state",
    "mach::var::Var.vars": "limit-checked in Var::store before any insert (C18.a)",
    "mach::var::Var.dims": "one entry per array name occurring in code: bounded by the code pool",
    "mach::program::Program.errors": "one entry per compile error: bounded by lines x statements",
    "mach::program::Program.indirect_errors": "same Arc as errors after link",
    "mach::program::Program.link": "see Link",
    "mach::link::Link.ops": "Stack: limit-checked (code pool)",
    "mach::link::Link.data": "Stack: limit-checked (data pool)",
    "mach::link::Link.symbols": "one per line + one per control opcode: bounded by the code pool",
    "mach::link::Link.unlinked": "one per branch opcode, emptied by link()",
    "mach::link::Link.whiles": "one per WHILE/WEND opcode, emptied by link()",
    "mach::listing::Listing.source": "at most 65530 lines of at most MAX_LINE_LEN bytes",
    "mach::listing::Listing.indirect_errors": "Arc shared with Program",
    "mach::listing::Listing.direct_errors": "Arc shared with Program",
    "mach::stack::Stack.vec": "the pool itself: private, grown only by push/append + overflow_check",
    "mach::stack::Stack.overflow_message": "static str",
}


def run(ctx):
    cr = ctx.lib
    ctx.rule("C18.a", "Stack.vec is private to mach::stack; every function there that grows it "
             "(Vec::push/append/insert/extend) passes overflow_check on every path to its return; "
             "overflow_check compares with the 16-bit limit and raises OUT OF MEMORY; Var::store "
             "tests vars.len() before any insert and HashMap::insert on vars happens only in "
             "update_val")
    ctx.rule("C18.b", "every growable container field of Runtime, Var, Program, Link, Listing, "
             "Stack is listed with its bound; an unlisted container field fails the check")
    ctx.rule("C18.c", "an error that finds the stack (nearly) full clears it, so OUT OF MEMORY "
             "leaves a usable session (see C03.e); update_val frees default values (see C06.e)")
    ctx.rule("C18.e", "ON..GOSUB: the return address pushed before the selector is consumed by a "
             "Return opcode emitted before the return label, under the same is_gosub condition")
    rule_a(ctx, cr)
    rule_b(ctx, cr)
    rule_c(ctx, cr)
    rule_e(ctx, cr)
    # RETURN leaves no residue above the caller's frames (shared with C01.h)
    ctx.rule("C18.f", "RETURN carries at most the value that was on top when it started: unwinding "
             "an unfinished FOR frame must not push one of its entries back above the caller's "
             "frames (see C01.h)")
    from rules import c01

    class _Proxy:
        def __init__(self, c):
            self.c = c

        def __getattr__(self, n):
            return getattr(self.c, n)

        def check(self, cond, rule, key, *a, **k):
            return self.c.check(cond, "C18.f", key, *a, **k)

        def ok(self, rule, key, *a, **k):
            return self.c.ok("C18.f", key, *a, **k)

        def bad(self, rule, key, *a, **k):
            return self.c.bad("C18.f", key, *a, **k)
    c01.rule_h(_Proxy(ctx), cr)
    ctx.rule("C18.h", "every VM handler that returns normally has ONE net effect on the value "
             "stack, whichever successful path it takes (an early `return Ok(..)` that skips the "
             "pops leaves the operands behind); decided for the loop-free handlers by enumerating "
             "their paths, error exits excluded; Runtime::input is the reviewed state machine")
    rule_h(ctx, cr)
    from rules import c01 as _c01, common as _common
    _c01.rule_l(_common.Proxy(ctx, "C18.e"), cr)
    ctx.rule("C18.j", "DATA lines execute as nothing: transform_to_data empties the fragment's code "
             "when it moves the constant to the data segment (see C09.a)")
    from rules import c09
    c09.rule_transform_consumes(ctx, cr, "C18.j")
    ctx.rule("C18.i", "single-opcode statements are stack-neutral: the number of operands the "
             "generator emits before the opcode (expression fragments, literals, variable reads, "
             "minus stores) equals what the opcode's VM handler takes off the stack on its "
             "successful paths (C18.h) - decided where the generator is loop-free and the "
             "handler's effect is unique")
    rule_i(ctx, cr)
    ctx.rule("C18.k", "NEXT reclaims abandoned loops: the search for the named FOR frame pops "
             "every frame it passes over - each cycle of the search loop in Runtime::next takes "
             "entries off the stack and pushes none - so loops left by GOTO do not pile up "
             "under an outer loop that keeps going round")
    rule_k(ctx, cr)
    ctx.rule("C18.g", "INPUT pushes exactly as many reply fields as the statement's Input opcodes "
             "pop: do_input rejects every reply whose field count differs from the variable count "
             "(see C17.f), so a completed INPUT leaves nothing on the stack")
    from rules import c17
    c17.rule_f(ctx, cr, "C18.g")


def rule_k(ctx, cr):
    f = cr.need_fn("mach::runtime::Runtime::next")
    ctx.touch(f)
    comps = f.sccs()
    if not ctx.check(bool(comps), "C18.k", "next/search-loop", f.span,
                     "Runtime::next searches the stack in a loop",
                     "Runtime::next has no loop: a NEXT naming an outer variable cannot pass over "
                     "(and discard) the frames of inner loops that were left early"):
        return
    for n, comp in enumerate(comps, 1):
        cs = set(comp)
        pops = [c for c in f.calls() if c.bb in cs and re.search(r"Stack<T>::pop(_\d)?$", c.name)]
        pushes = [c for c in f.calls() if c.bb in cs and c.name.endswith("Stack<T>::push")]
        ctx.check(bool(pops) and not pushes, "C18.k", "next/loop#%d/discards-what-it-passes" % n,
                  f.span, "%d pops, %d pushes inside the search loop" % (len(pops), len(pushes)),
                  "the frame search of NEXT goes round with %d pops and %d pushes: frames of "
                  "abandoned inner loops stay on the stack each time the outer loop continues, "
                  "until OUT OF MEMORY" % (len(pops), len(pushes)))


def rule_a(ctx, cr):
    fld = {f["name"]: f for f in cr.fields("mach::stack::Stack")}
    ctx.check(fld.get("vec", {}).get("vis") == "in mach::stack", "C18.a", "Stack.vec/private", "",
              "the pool vector is private to mach::stack",
              "Stack.vec is visible outside mach::stack: pools can be grown without the limit check")
    n = 0
    for p, f in sorted(cr.fns.items()):
        if not p.startswith("mach::stack::Stack<T>::"):
            continue
        grows = [c for c in f.calls() if GROW.match(c.callee or "")
                 and f.describe(c.args[0]).endswith(".vec")]
        if not grows:
            continue
        ctx.touch(f)
        oc = f.calls_to("mach::stack::Stack<T>::overflow_check")
        via = [c for c in f.calls() if c.name in ("mach::stack::Stack<T>::push",
                                                  "mach::stack::Stack<T>::append")]
        rets = set(f.return_blocks())
        for i, g in enumerate(grows, 1):
            n += 1
            checks = {c.bb for c in oc}
            leak = bool(f.reach_set(g.target, avoid=checks) & rets) if g.target is not None else True
            ctx.check(not leak, "C18.a", "%s/grow#%d/checked" % (p, i), g.span,
                      "growth is followed by overflow_check on every path",
                      "the pool grows here and a return is reachable without overflow_check: the "
                      "64K limit is not enforced on this path")
    ctx.floor("C18.a", "pool growth sites", n, 2)
    oc = cr.need_fn("mach::stack::Stack<T>::overflow_check")
    ctx.touch(oc)
    codes = {c for _b, c, _s in oc.error_codes()}
    cmp_ok = any(st["rv"]["k"] == "binop" and st["rv"]["op"] == "Gt"
                 and "max_len" in oc.describe(st["rv"]["r"]) for b, i, st in oc.assigns())
    ctx.check(codes == {"OutOfMemory"} and cmp_ok, "C18.a", "overflow_check/limit", oc.span,
              "len > max_len() -> OUT OF MEMORY")
    ml = cr.need_fn("mach::stack::Stack<T>::max_len")
    ok = any("u16" in (c.callee or "") and c.callee.endswith("max_value") for c in ml.calls())
    ctx.check(ok, "C18.a", "max_len/64K", ml.span, "the limit is u16::max_value()")
    # pop_n builds its result through the checked push as well
    pn = cr.need_fn("mach::stack::Stack<T>::pop_n")
    ctx.check(bool(pn.calls_to("mach::stack::Stack<T>::push")), "C18.a", "pop_n/uses-push", pn.span,
              "pop_n fills its result through push")
    st = cr.need_fn("mach::var::Var::store")
    ctx.touch(st)
    ln = [c for c in st.calls_matching(r"HashMap::<K, V, S, A>::len$")]
    ins = [c for c in st.calls() if re.match(r"^mach::var::Var::insert_", c.name)]
    # every path to an insert_* either made the len() test or knows the key exists already
    def reach_unchecked():
        seen, todo = set(), [0]
        while todo:
            b = todo.pop()
            if b in seen or (ln and b == ln[0].bb):
                continue
            seen.add(b)
            ec = st.edge_conds(b)
            for s_ in st.succ(b):
                if any(c[0] == "eq" and "contains_key" in str(c[1]) and c[2] is True
                       for c in ec.get(s_, ())):
                    continue        # key already present: no growth on this edge
                todo.append(s_)
        return seen
    unchecked = reach_unchecked()
    okv = bool(ln) and bool(ins) and not any(c.bb in unchecked for c in ins) and \
        "OutOfMemory" in {c for _b, c, _s in st.error_codes()}
    ctx.check(okv, "C18.a", "Var::store/limit-before-insert", st.span,
              "the variable pool limit is tested before any insert_*",
              "Var::store no longer tests vars.len() before inserting: the variable pool is "
              "unbounded")
    oom = [b for b, c, _s in st.error_codes() if c == "OutOfMemory"]
    newkey = any(c[0] == "eq" and "contains_key" in str(c[1]) and c[2] is False
                 for b in oom for c in st.conds_at(b))
    ctx.check(bool(oom) and newkey, "C18.a", "Var::store/limit-only-for-new-keys", st.span,
              "a full pool refuses new variables only: overwriting or zeroing an existing one "
              "still works (and zeroing frees its slot)",
              "Var::store raises OUT OF MEMORY on a full pool before it looks at the key: a "
              "variable that already exists can no longer be overwritten or set back to 0, so "
              "nothing can be freed without CLEAR")
    writers = set()
    for p, f in cr.fns.items():
        for c in f.calls_matching(r"HashMap::<K, V, S, A>::insert$"):
            if f.describe(c.args[0]).endswith(".vars"):
                writers.add(p)
    ctx.check(writers == {"mach::var::Var::update_val"}, "C18.a", "Var.vars/inserters", "",
              "vars grows only in update_val", "vars is inserted into by %s" % sorted(writers))


def rule_b(ctx, cr):
    n = 0
    for s in STRUCTS:
        for fl in cr.fields(s):
            if not CONTAINER.search(fl["ty"]) and not fl["ty"].startswith("mach::"):
                continue
            n += 1
            key = "%s.%s" % (s, fl["name"])
            ctx.check(key in BOUNDS, "C18.b", key, "", BOUNDS.get(key, ""),
                      "container field %s: %s has no recorded bound: it can grow without limit "
                      "for all the check knows" % (key, fl["ty"]))
    ctx.floor("C18.b", "container fields", n, 18)


def rule_c(ctx, cr):
    ex = cr.need_fn("mach::runtime::Runtime::execute")
    ctx.touch(ex)
    full = ex.calls_to("mach::stack::Stack<T>::is_full")
    clr = ex.calls_to("mach::stack::Stack<T>::clear")
    ok = bool(full) and any(ex.can_reach(full[0].bb, c.bb) for c in clr)
    ctx.check(ok, "C18.c", "execute/clears-full-stack", ex.span,
              "the error arm clears a full stack")
    isf = cr.need_fn("mach::stack::Stack<T>::is_full")
    okf = any(st["rv"]["k"] == "binop" and st["rv"]["op"] == "Gt" for b, i, st in isf.assigns())
    ctx.check(okf, "C18.c", "is_full/threshold", isf.span, "is_full leaves head-room below the limit")
    uv = cr.need_fn("mach::var::Var::update_val")
    ctx.check(bool(uv.calls_matching(r"HashMap::<K, V, S, A>::remove$")), "C18.c",
              "update_val/frees-defaults", uv.span, "default values are removed from the pool")


def rule_e(ctx, cr):
    g = cr.need_fn("mach::codegen::Generator::on")
    ctx.touch(g)
    prv = g.calls_to("mach::link::Link::push_return_val")
    sym = g.calls_to("mach::link::Link::push_symbol")
    rets = []
    for c in g.calls_to("mach::link::Link::push"):
        sv = g.stored_variant(g.value_of_operand(c.args[1]))
        if sv and sv[1] == "Return":
            rets.append(c)
    if not ctx.check(len(prv) == 1 and len(sym) == 1, "C18.e", "Generator::on/frame", g.span,
                     "one return address and one return label"):
        return

    def gos(bb):
        for c in g.conds_at(bb):
            if c[0] == "eq" and "arg:5" in str(c[1]):
                return c[2]
        return None
    ok = len(rets) == 1 and gos(prv[0].bb) is True and gos(rets[0].bb) is True and \
        gos(sym[0].bb) is True and g.dominates(rets[0].bb, sym[0].bb)
    ctx.check(ok, "C18.e", "Generator::on/fallthrough-consumes-frame", g.span,
              "when no line is selected the pushed return address is consumed before the label",
              "ON..GOSUB pushes a return address that nothing consumes when the selector is out of "
              "range: every such execution leaks one stack entry, and a later RETURN comes back "
              "to the ON statement")
    # same symbol for marker and label
    a = g.describe(prv[0].args[2])
    b = g.describe(sym[0].args[1])
    ctx.check(a == b and "next_symbol" in a, "C18.e", "Generator::on/marker-label-same-symbol",
              g.span, "the marker's target is the label after the jump table")
    # jump table length literal: Literal(len) pushed before On
    on = [c for c in g.calls_to("mach::link::Link::push")
          if (g.stored_variant(g.value_of_operand(c.args[1])) or (None, None))[1] == "On"]
    gotos = g.calls_to("mach::link::Link::push_goto")
    ctx.check(len(on) == 1 and len(gotos) == 1 and g.dominates(on[0].bb, gotos[0].bb), "C18.e",
              "Generator::on/table-after-On", g.span, "the jump table follows the On opcode")


STACK_EFFECT = {"mach::stack::Stack<T>::pop": -1, "mach::stack::Stack<T>::pop_2": -2,
                "mach::stack::Stack<T>::push": 1}
MULTI_EFFECT_OK = {
    "input": "state machine: re-arms itself in Running state (0), converts one field per Input(name) "
             "(0), and the closing Input(\"\") drops the four staged entries (-4): C17.a",
}


def ok_path_effects(f):
    """net value-stack effects over the paths of a loop-free handler that do not pass an error
    construction; 'loop' / 'var' when the rule does not apply"""
    if f.sccs():
        return "loop"
    res = set()
    state = {"var": False, "n": 0}

    def is_stack(c):
        return bool(c.args) and f.describe(c.args[0]).endswith(".stack")

    def walk(b, net, err):
        state["n"] += 1
        if state["n"] > 200000:
            state["var"] = True
            return
        c = f.call_at(b)
        d = 0
        if c is not None:
            if c.name.endswith("from_residual") or c.name == "lang::error::Error::new":
                err = True
            if is_stack(c):
                if c.name in STACK_EFFECT:
                    d = STACK_EFFECT[c.name]
                elif not re.search(r"Stack<T>::(len|is_empty|is_full|last|get)$", c.name):
                    state["var"] = True
        if f.term(b)["k"] == "return":
            if not err:
                res.add(net + d)
            return
        for s_ in f.succ(b):
            if f.blocks[s_].get("cleanup"):
                continue
            walk(s_, net + d, err)
    walk(0, 0, False)
    return "var" if state["var"] else res


def rule_h(ctx, cr):
    n = 0
    for p, f in sorted(cr.fns.items()):
        if not p.startswith("mach::runtime::Runtime::") or "{" in p:
            continue
        if not any(c.args and f.describe(c.args[0]).endswith(".stack") and
                   c.name in STACK_EFFECT for c in f.calls()):
            continue
        name = p.rsplit("::", 1)[1]
        eff = ok_path_effects(f)
        if isinstance(eff, str):
            continue
        ctx.touch(f)
        n += 1
        if name in MULTI_EFFECT_OK:
            ctx.ok("C18.h", "handler/%s" % name, f.span, MULTI_EFFECT_OK[name])
            continue
        ctx.check(len(eff) <= 1, "C18.h", "handler/%s" % name, f.span,
                  "net stack effect %s on every successful path" % sorted(eff),
                  "Runtime::%s returns Ok with different net effects on the value stack (%s): one "
                  "of its successful paths leaves operands behind (or takes too many), so the "
                  "statement does not leave the stack as it found it and repeating it runs the "
                  "stack full" % (name, sorted(eff)))
    ctx.floor("C18.h", "loop-free handlers with a decidable stack effect", n, 15)


def rule_i(ctx, cr):
    from rules import c01
    _lp, now = c01.dispatch_now(cr)

    def handler_net(op):
        arm = now.get(op, [])
        hs = [re.sub(r"^self\.", "mach::runtime::Runtime::", a) for a in arm if a.startswith("self.")]
        if len(hs) != 1 or hs[0] not in cr.fns:
            return None
        e = ok_path_effects(cr.fns[hs[0]])
        if isinstance(e, str) or len(e) != 1:
            return None
        return next(iter(e))
    n = 0
    for p, g in sorted(cr.fns.items()):
        if not p.startswith("mach::codegen::Generator::") or "{" in p or g.sccs():
            continue
        ops = []
        for c in g.calls_to("mach::link::Link::push"):
            sv = g.stored_variant(g.value_of_operand(c.args[1]))
            ops.append(sv[1] if sv else "?")
        nonlit = [o for o in ops if o != "Literal"]
        if len(nonlit) != 1 or nonlit[0] == "?":
            continue
        net = handler_net(nonlit[0])
        if net is None:
            continue
        operands = len(g.calls_to("mach::link::Link::append")) + ops.count("Literal") + \
            len(g.calls_to("mach::codegen::VarItem::push_as_expression")) - \
            len(g.calls_to("mach::codegen::VarItem::push_as_pop")) - \
            len(g.calls_to("mach::codegen::VarItem::push_as_pop_unary"))
        n += 1
        ctx.touch(g)
        name = p.rsplit("::", 1)[1]
        ctx.check(operands + net == 0, "C18.i", "statement/%s" % name, g.span,
                  "%d operand(s) emitted, Opcode::%s takes %d" % (operands, nonlit[0], -net),
                  "Generator::%s emits %d operand(s) but Opcode::%s's handler changes the stack "
                  "by %+d: every execution of the statement leaves the stack %s"
                  % (name, operands, nonlit[0], net,
                     "deeper (a leak)" if operands + net > 0 else "short (it eats the caller's "
                     "entries)"))
    ctx.floor("C18.i", "single-opcode statements decided", n, 15)
