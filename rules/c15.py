"""C15 - the program store is an ordered map with exact LIST/DELETE ranges.

Decides store discipline: ordered map type; insert-or-delete on entry; inclusive ranges end to
end; the bare-DELETE, inverted-range and 65529 bound guards with their comparison operators;
the two pieces of LIST's resumable range rewriting. Does not decide that list_line's
self-rewriting range emits exactly the lines in range for every history (partial claim)."""
import re

from rules import common

from lib.mir import rvalue_operands, op_const

MAXV = "<std::option::Option<u16> as lang::MaxValue<u16>>::max_value"
# function -> list of (operator, side of max_value) as reviewed on the pinned tree
BOUND_CMPS = {
    "<std::option::Option<u16> as std::convert::TryFrom<&lang::token::Token>>::try_from": [("Le", "R")],
    "<std::option::Option<u16> as std::convert::TryFrom<mach::val::Val>>::try_from": [("Le", "R")],
    "lang::lex::BasicLexer::lex": [("Le", "R")],
    "lang::line::RenumVisitor<'a>::line": [("Gt", "R")],
    "lang::parse::BasicParser<'a>::maybe_line_number": [("Le", "R")],
    "mach::link::Link::line_number_for": [("Le", "R")],
    "mach::listing::Listing::line": [("Gt", "R")],
    "mach::listing::Listing::renum": [("Le", "R"), ("Gt", "R")],
}


def run(ctx):
    cr = ctx.lib
    ctx.rule("C15.a", "Listing.source is Arc<BTreeMap<LineNumber, Line>> (ordered) and lines() / "
             "list_line / remove_range traverse it with values() / range() only")
    ctx.rule("C15.b", "enter(): a numbered line with no tokens removes exactly its own number, "
             "any other numbered line is inserted; direct lines never touch the store")
    ctx.rule("C15.c", "ranges are inclusive end to end: r#delete and r#list build RangeInclusive, "
             "remove_range and State::Listing carry that type")
    ctx.rule("C15.d", "guards: a DELETE without operands is rejected by the code generator (empty "
             "operand columns) and Runtime::delete has no value sentinel; an inverted range is "
             "rejected by the parser before it returns Ok; every comparison against "
             "LineNumber::max_value() has its reviewed operator and 65529/65530 occur only there")
    ctx.rule("C15.e", "list_line: a line below the range end moves the start to num+1, the last "
             "line installs the empty sentinel range (max+1..=max+1), and the listing state ends "
             "when list_line yields nothing")
    rule_a(ctx, cr)
    rule_b(ctx, cr)
    rule_c(ctx, cr)
    rule_d(ctx, cr)
    rule_linekinds(ctx, cr)
    rule_lex_number(ctx, cr)
    rule_e(ctx, cr)


def rule_a(ctx, cr):
    fl = {f["name"]: f for f in cr.fields("mach::listing::Listing")}
    ty = fl.get("source", {}).get("ty", "")
    ctx.check(ty == "std::sync::Arc<std::collections::BTreeMap<std::option::Option<u16>, "
              "lang::line::Line>>", "C15.a", "Listing.source/type", "",
              "ordered map keyed by line number",
              "Listing.source is now %s: ascending LIST order is no longer given by the type" % ty)
    for name, rx in (("lines", r"BTreeMap::<K, V, A>::values$"),
                     ("list_line", r"BTreeMap::<K, V, A>::range$"),
                     ("remove_range", r"BTreeMap::<K, V, A>::range$")):
        f = cr.need_fn("mach::listing::Listing::" + name)
        ctx.touch(f)
        ctx.check(bool(f.calls_matching(rx)), "C15.a", "%s/ordered-traversal" % name, f.span,
                  "traverses the map in key order")


def rule_b(ctx, cr):
    e = cr.need_fn("mach::runtime::Runtime::enter_indirect")
    ctx.touch(e)
    rm = e.calls_to("mach::listing::Listing::remove")
    ins = e.calls_to("mach::listing::Listing::insert")
    emp = e.calls_to("lang::line::Line::is_empty")
    ok = len(rm) == 1 and len(ins) == 1 and len(emp) == 1
    if ok:
        t = f = None
        for c in e.conds_at(rm[0].bb):
            if c[0] == "eq" and "Line::is_empty" in str(c[1]):
                t = c[2]
        for c in e.conds_at(ins[0].bb):
            if c[0] == "eq" and "Line::is_empty" in str(c[1]):
                f = c[2]
        ok = t is True and f is False and "Line::number" in e.describe(rm[0].args[1])
    ctx.check(ok, "C15.b", "enter_indirect/insert-or-delete", e.span,
              "empty numbered line -> remove(its number); otherwise insert",
              "enter_indirect no longer maps `bare number` to remove(that number) and everything "
              "else to insert")
    en = cr.need_fn("mach::runtime::Runtime::enter")
    ctx.touch(en)
    ci = en.calls_to("mach::runtime::Runtime::enter_indirect")
    okd = len(ci) == 1 and any(c[0] == "eq" and "Line::is_direct" in str(c[1]) and c[2] is False
                               for c in en.conds_at(ci[0].bb))
    ctx.check(okd, "C15.b", "enter/indirect-only-for-numbered", en.span,
              "only numbered lines reach the store")
    li = cr.need_fn("mach::listing::Listing::insert")
    c = li.calls_matching(r"BTreeMap::<K, V, A>::insert$")
    ctx.check(len(c) == 1 and "Line::number" in li.describe(c[0].args[1]), "C15.b",
              "Listing::insert/keyed-by-own-number", li.span, "a line is stored under its own number")


def rule_c(ctx, cr):
    for name, callee in (("delete", "mach::listing::Listing::remove_range"), ("list", None)):
        f = cr.need_fn("mach::runtime::Runtime::" + name)
        ctx.touch(f)
        rng = f.calls_matching(r"RangeInclusive::<Idx>::new$")
        ok = len(rng) == 1
        if ok:
            a, b = f.describe(rng[0].args[0]), f.describe(rng[0].args[1])
            ok = "var:from" in a or "from" in a
        if ok:
            extra = set()
            for arg in rng[0].args[:2]:
                for nm in f.back_slice_calls(arg):
                    if not re.search(r"(Stack<T>::pop_2|Stack<T>::pop|TryFrom<mach::val::Val>>::try_from|"
                                     r"TryFrom::try_from|Try>?::branch|RangeInclusive::<Idx>::new)$", nm):
                        extra.add(nm.rsplit("::", 2)[-2] + "::" + nm.rsplit("::", 1)[-1])
            ctx.check(not extra, "C15.c", "%s/range-ends-unmodified" % name, rng[0].span,
                      "both ends are the converted operands themselves",
                      "a range end is transformed on the way (%s): the range no longer covers "
                      "exactly the lines from..=to" % sorted(extra))
        excl = [1 for b, i, st in f.aggregates("std::ops::Range")]
        ctx.check(ok and not excl, "C15.c", "%s/inclusive-range" % name, f.span,
                  "builds from..=to", "r#%s no longer builds an inclusive range" % name)
    rr = cr.need_fn("mach::listing::Listing::remove_range")
    ctx.check("RangeInclusive" in rr.local_ty(2), "C15.c", "remove_range/param-type", rr.span,
              "takes RangeInclusive<LineNumber>")
    # the removal itself may be skipped only when the range holds no line at all
    rm = rr.calls_matching(r"BTreeMap::<K, V, A>::remove$")
    if ctx.check(bool(rm), "C15.c", "remove_range/removes", rr.span, "removes by key"):
        other = []
        for c in rm:
            other += common.emptiness_conds(rr, c.bb)[1]
        ctx.check(not other, "C15.c", "remove_range/removes-when-any", rm[0].span,
                  "the removal is skipped only when no stored line falls in the range",
                  "the removal stands under a size test other than `not empty` (%s): DELETE "
                  "leaves lines of some ranges in place" % [str(c[1])[:90] for c in other])
    st = cr.need_adt("mach::runtime::State")
    lv = [v for v in st["variants"] if v["name"] == "Listing"]
    ctx.check(bool(lv) and "RangeInclusive" in lv[0]["fields"][0]["ty"], "C15.c",
              "State::Listing/type", "", "the LIST state carries an inclusive range")


def rule_lex_number(ctx, cr):
    """the leading line number is taken at full width: parsed into u16 (overflow = not a number)
    and never narrowed from a wider accumulator before the 65529 test"""
    f = cr.need_fn("lang::lex::BasicLexer::lex")
    ctx.touch(f)
    narrow = [(st["rv"]["from"], st["span"]["line"]) for b, i, st in f.assigns()
              if st["rv"]["k"] == "cast" and st["rv"]["kind"] == "IntToInt" and st["rv"]["to"] == "u16"
              and st["rv"]["from"] in ("u32", "u64", "usize", "i32", "i64", "isize", "u128", "i128")]
    ps = f.calls_matching(r"<impl str>::parse$")
    ctx.check(not narrow and len(ps) == 1, "C15.d", "lex/line-number-not-narrowed", f.span,
              "the line-number prefix is parsed straight into 16 bits",
              "BasicLexer::lex narrows a wider value to u16 (%s) before the range test: a typed "
              "line number of 65536 or more wraps around and overwrites or deletes another line "
              "(65546 becomes line 10)" % narrow)


def rule_linekinds(ctx, cr):
    """the operand parser accepts every literal kind the scanner produces for 0..65529"""
    f = cr.need_fn("lang::parse::BasicParser<'a>::maybe_line_number")
    ctx.touch(f)
    kinds = set()
    for b, i, st in f.aggregates("std::option::Option"):
        if st["rv"]["variant"] != "Some":
            continue
        for c in f.conds_at(b):
            if c[0] == "variant" and c[2] == "lang::token::Literal":
                kinds.add(c[3])
    ps = f.calls_matching(r"<impl str>::parse$")
    ctx.check({"Integer", "Single"} <= kinds and len(ps) == 1, "C15.d",
              "maybe_line_number/literal-kinds", f.span,
              "line-number operands are read from Integer and Single literals (a whole number "
              "above 32767 is scanned as a Single): %s" % sorted(kinds),
              "maybe_line_number() reads a line number only from %s literals: the scanner types "
              "every whole number above 32767 as Single, so LIST / DELETE / GOTO operands "
              "32768..65529 are rejected as invalid" % sorted(kinds))


def rule_d(ctx, cr):
    # a bare DELETE is recognised where the information exists - by the absence of operands
    # (zero-width columns), in the code generator - not by the default VALUES 0..65529, which an
    # explicit `DELETE 0-` or `DELETE -65529` has too
    g = cr.need_fn("mach::codegen::Generator::delete")
    ctx.touch(g)
    errs = [b for b, c, _s in g.error_codes() if c == "IllegalFunctionCall"]
    emit = [c for c in g.calls_to("mach::link::Link::push")]
    both_empty = False
    ise = g.calls_matching(r"Range::<Idx>::is_empty$")
    for b in errs:
        holds = any(c[0] == "eq" and "::is_empty" in str(c[1]) and c[2] is True
                    for c in g.conds_at(b))
        # two distinct is_empty() tests (from-column and to-column) dominate the rejection
        if holds and len([c for c in ise if g.dominates(c.bb, b)]) >= 2:
            both_empty = True
    ok = both_empty and bool(emit) and not any(g.can_reach(c.bb, b) for c in emit for b in errs)
    ctx.check(ok, "C15.d", "delete/bare-delete-rejected", g.span,
              "DELETE with no operand at all is an ILLEGAL FUNCTION CALL, raised before anything "
              "is emitted",
              "a bare DELETE (both operand columns empty) is no longer rejected by the code "
              "generator: it would delete the whole program")
    d = cr.need_fn("mach::runtime::Runtime::delete")
    ctx.touch(d)
    rr = d.calls_to("mach::listing::Listing::remove_range")
    sentinel = [st["span"]["line"] for b, i, st in d.assigns()
                if st["rv"]["k"] == "binop" and st["rv"]["op"] in ("Eq", "Ne")] + \
               [c.span["line"] for c in d.calls() if "PartialEq" in (c.callee or "")]
    ctx.check(len(rr) == 1 and not sentinel and not list(d.error_codes()), "C15.d",
              "delete/no-value-sentinel", d.span,
              "every parsed range reaches remove_range: the bounds are not compared with "
              "sentinel values",
              "Runtime::delete compares its bounds with fixed values (lines %s): an explicit range "
              "that happens to equal them (`DELETE 0-`, `DELETE -65529`) is treated as something "
              "else than the lines it names" % sentinel)
    p = cr.need_fn("lang::parse::BasicParser<'a>::expect_line_number_range")
    ctx.touch(p)
    inv = False
    for b, code, span in p.error_codes():
        for op, l, r, truth in p.cmp_conds_at(b):
            if op == "Gt" and truth and not p.describe(l).startswith("const:") and \
                    not p.describe(r).startswith("const:"):
                inv = True
    # defaults are chosen by presence of a number, never by its value: the only comparison of
    # parsed numbers in the range parser is from > to (no comparison with a constant)
    valcmp = []
    for b, i, st in p.assigns():
        rv = st["rv"]
        if rv["k"] == "binop" and rv["op"] in ("Lt", "Le", "Gt", "Ge", "Eq", "Ne") and \
                rv["lty"] in ("f32", "f64", "u16"):
            l, r = p.describe(rv["l"]), p.describe(rv["r"])
            if l.startswith("const:") or r.startswith("const:") or "max_value" in l + r:
                valcmp.append("%s %s %s" % (l[-24:], rv["op"], r[-24:]))
    ctx.check(not valcmp, "C15.d", "range/defaults-by-presence", p.span,
              "the one-line / open-ended defaults depend on whether a number was written, not on "
              "its value",
              "the range parser compares a parsed line number with a constant (%s): some line "
              "number (0 or the maximum) is treated as if it had not been written" % valcmp)
    ctx.check(inv, "C15.d", "range/inverted-rejected", p.span,
              "from > to is rejected", "the inverted-range test (from_num > to_num -> error) is gone")
    # comparisons with max_value
    seen = {}
    for pth, f in sorted(cr.fns.items()):
        for b, i, st in f.assigns():
            rv = st["rv"]
            if rv["k"] == "binop" and rv["op"] in ("Lt", "Le", "Gt", "Ge", "Eq", "Ne"):
                l, r = f.describe(rv["l"]), f.describe(rv["r"])
                if "MaxValue" in l or "MaxValue" in r:
                    seen.setdefault(pth, []).append((rv["op"], "L" if "MaxValue" in l else "R"))
    ctx.floor("C15.d", "comparisons with LineNumber::max_value()", sum(map(len, seen.values())), 9)
    for pth in sorted(set(seen) | set(BOUND_CMPS)):
        ctx.check(sorted(seen.get(pth, [])) == sorted(BOUND_CMPS.get(pth, [])), "C15.d",
                  "bound/%s" % pth, cr.fns[pth].span if pth in cr.fns else "",
                  "compares with max_value() as reviewed %s" % BOUND_CMPS.get(pth),
                  "%s compares with LineNumber::max_value() using %s; reviewed: %s (an off-by-one "
                  "on the 65529 bound)" % (pth, seen.get(pth), BOUND_CMPS.get(pth)))
    lits = []
    for pth, f in cr.fns.items():
        for b, i, st in f.assigns():
            for o in rvalue_operands(st["rv"]):
                c = op_const(o)
                if c and c.get("int") in (65529, 65530):
                    lits.append(pth)
        for b in f.reachable():
            t = f.term(b)
            if t["k"] == "call":
                for a in t["args"]:
                    c = op_const(a)
                    if c and c.get("int") in (65529, 65530):
                        lits.append(pth)
    ctx.check(lits == [MAXV], "C15.d", "bound/single-definition", "",
              "65529 is written once, in max_value()", "65529/65530 literals appear in %s" % lits)


def rule_e(ctx, cr):
    f = cr.need_fn("mach::listing::Listing::list_line")
    ctx.touch(f)
    lt = [st for b, i, st in f.assigns() if st["rv"]["k"] == "binop" and st["rv"]["op"] == "Lt"]
    cmpc = [c for c in f.calls() if "PartialOrd" in (c.callee or "") and c.callee.endswith("::lt")]
    ctx.check(bool(lt) or bool(cmpc), "C15.e", "list_line/below-end-test", f.span,
              "`line_number < range.end()` decides whether more lines may follow")
    plus = [c for c in f.calls() if (c.callee or "").endswith("ops::Add::add")
            and f.const_of_operand(c.args[1]) == 1]
    ctx.check(len(plus) == 1, "C15.e", "list_line/next-start", f.span, "next start is num + 1")
    sent = [st for b, i, st in f.assigns() if st["rv"]["k"] == "binop"
            and st["rv"]["op"].startswith("Add") and "MaxValue" in f.describe(st["rv"]["l"])
            and f.describe(st["rv"]["r"]) == "const:1"]
    ctx.check(len(sent) == 2, "C15.e", "list_line/sentinel", f.span,
              "the last line installs max+1..=max+1, which matches no line")
    ex = cr.need_fn("mach::runtime::Runtime::execute")
    c = ex.calls_to("mach::listing::Listing::list_line")
    okx = len(c) == 1
    if okx:
        dest = ex.cplace(c[0].dest)
        run = [b for b, s, v in ex.field_stores("state")
               if ex.stored_variant(v) == ("mach::runtime::State", "Running")
               and ex.variant_at(b, dest) in (None, "None")]
        lst = [b for b, s, v in ex.field_stores("state")
               if ex.stored_variant(v) == ("mach::runtime::State", "Listing")
               and ex.variant_at(b, dest) == "Some"]
        okx = bool(run) and bool(lst)
    ctx.check(okx, "C15.e", "execute/listing-state", ex.span,
              "Some(line) keeps listing with the rewritten range, None returns to Running")
