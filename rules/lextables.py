"""Extraction of the lexer's and lister's tables from MIR (shared by C05 and C16)."""
import re

from lib.mir import const_val, op_const
from rules import tables

TOKEN = "lang::token::Token"
WORD = "lang::token::Word"
OPERATOR = "lang::token::Operator"


def _token_value(f, op):
    """(Token variant, (inner enum short name, inner variant) | None) of an operand holding a
    Token aggregate"""
    v = f.value_of_operand(op)
    if not v or v.get("k") != "rv" or v["rv"].get("adt") != TOKEN:
        return None
    kind = v["rv"]["variant"]
    inner = None
    if v["rv"]["ops"]:
        iv = f.value_of_operand(v["rv"]["ops"][0])
        if iv and iv.get("k") == "rv" and iv["rv"].get("agg") == "adt":
            inner = (iv["rv"]["adt"].rsplit("::", 1)[-1], iv["rv"]["variant"])
        elif iv and iv.get("k") == "const":
            inner = ("const", const_val(iv["const"]))
    return kind, inner


def keywords(cr):
    """ordered [(string, Token variant, (enum, variant))] of Token::scan_alphabetic's table
    (the table may live in the function body or in a promoted constant)"""
    f = cr.need_fn("lang::token::Token::scan_alphabetic")
    rows = []
    for g in [f] + f.promoted_fns():
        for b, i, st in g.assigns():
            rv = st["rv"]
            if rv["k"] == "aggregate" and rv.get("agg") == "array" and len(rv["ops"]) > 5:
                for op in rv["ops"]:
                    v = g.value_of_operand(op)
                    if v and v.get("k") == "rv" and v["rv"].get("agg") == "tuple":
                        t = v["rv"]["ops"]
                        s = g.const_of_operand(t[0])
                        if s is None:
                            # &"KW" through a reference temporary
                            sv = g.value_of_operand(t[0])
                            if sv and sv.get("k") == "rv" and sv["rv"]["k"] == "ref":
                                s = const_val((g.value_of_local(sv["rv"]["place"]["local"])
                                               or {}).get("const"))
                        tv = _token_value(g, t[1])
                        if s is not None and tv:
                            rows.append((s, tv[0], tv[1]))
    return rows


def minutia(cr):
    """{string: (Token variant, inner)} of Token::match_minutia"""
    f = cr.need_fn("lang::token::Token::match_minutia")
    out = {}
    for b, i, st in f.aggregates(TOKEN):
        key = None
        for c in f.conds_at(b):
            if c[0] == "eq" and c[2] is True:
                src = f._cond_src.get(c)
                if src and src.get("k") == "call" and \
                        (src["call"].name or "").endswith("PartialEq for str>::eq"):
                    key = f.const_of_operand(src["call"].args[1])
        if key is None:
            continue
        rv = st["rv"]
        inner = None
        if rv["ops"]:
            iv = f.value_of_operand(rv["ops"][0])
            if iv and iv.get("k") == "rv" and iv["rv"].get("agg") == "adt":
                inner = (iv["rv"]["adt"].rsplit("::", 1)[-1], iv["rv"]["variant"])
        out[key] = (rv["variant"], inner)
    return out


def display(cr, adt):
    f = cr.need_fn("<%s as std::fmt::Display>::fmt" % adt)
    t = tables.string_table(f, tables.arg_place(f, 1))
    return {k: v[0] for k, v in t.items() if v}


def bool_table(cr, path):
    f = cr.need_fn(path)
    t = tables.const_returns_by_variant(f, tables.arg_place(f, 1))
    return {k: (next(iter(v)) if len(v) == 1 else None) for k, v in t.items()}


def _window_index(place_s):
    m = re.search(r"\[(\d+)\]", place_s)
    return int(m.group(1)) if m else None


def collapse_table(cr, path):
    """rows of a collapse_* function: list of (dict index -> description, result (enum,variant)).
    description per window index: ('Operator','Less') / ('Whitespace',None) / ('Word','To') /
    ('Ident','GO')"""
    f = cr.need_fn(path)
    rows = []
    for c in f.calls_matching(r"Vec::<T, A>::push$"):
        # pushed value: tuple (index, Token)
        v = f.value_of_operand(c.args[1])
        if not v or v.get("k") != "rv" or v["rv"].get("agg") != "tuple":
            continue
        tv = _token_value(f, v["rv"]["ops"][1])
        if not tv:
            continue
        pat = {}
        for cond in f.conds_at(c.bb):
            if cond[0] == "variant":
                idx = _window_index(cond[1])
                if idx is None:
                    continue
                adt = cond[2].rsplit("::", 1)[-1]
                if adt == "Token":
                    pat.setdefault(idx, [None, None])[0] = cond[3]
                elif adt in ("Operator", "Word"):
                    pat.setdefault(idx, [None, None])[1] = cond[3]
                elif adt == "Ident":
                    pat.setdefault(idx, [None, None])
            elif cond[0] == "eq" and cond[2] is True:
                src = f._cond_src.get(cond)
                if src and src.get("k") == "call" and "PartialEq" in (src["call"].callee or ""):
                    s = None
                    for a in src["call"].args:
                        cv = f.const_of_operand(a)
                        if isinstance(cv, str):
                            s = cv
                    idx = None
                    for a in src["call"].args:
                        d = f.describe(a)
                        i2 = _window_index(d)
                        if i2 is not None:
                            idx = i2
                    if s is not None and idx is not None:
                        pat.setdefault(idx, [None, None])[1] = s
        rows.append(({k: tuple(v) for k, v in pat.items()}, tv[1]))
    return rows


def char_consts(f):
    """[(char, bb, compared-operand description, span)] for every comparison of a char value with
    a char constant (binop Eq/Ne or SwitchInt on char)"""
    out = []
    for b, i, st in f.assigns():
        rv = st["rv"]
        if rv["k"] == "binop" and rv["op"] in ("Eq", "Ne") and rv["lty"] == "char":
            for a, o in ((rv["l"], rv["r"]), (rv["r"], rv["l"])):
                c = op_const(a)
                if c is not None and "char" in c:
                    out.append((c["char"], b, f.describe(o), st["span"], o))
    for b in f.reachable():
        t = f.term(b)
        if t["k"] == "switch" and t.get("discr_ty") == "char":
            for v, _tb in t["targets"]:
                out.append((chr(v), b, f.describe(t["discr"]), t["span"], t["discr"]))
    return out
