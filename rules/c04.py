"""C04 - what runs is always the program that LIST shows.

Decides (cache validity and invalidation as effects, not transcript equality):
(a) the set of functions that can change the stored program is the reviewed one;
(b) every such change leaves `dirty` set on every path (except the mutator's own
    "nothing changed" result), and `dirty` is only cleared next to a full recompile;
(c) the recompile drops every piece of state that holds addresses of the replaced code;
(d) from inside the VM only DELETE / RENUM / NEW reach a mutator."""
import re

from lib.mir import Call, op_const, op_place

LISTING = "mach::listing::Listing"
RUNTIME = "mach::runtime::Runtime"
# mutators of Listing.source and what "nothing changed" looks like for each
MUTATORS = {
    "mach::listing::Listing::insert": None,
    "mach::listing::Listing::remove": "none",        # Option: None => nothing removed
    "mach::listing::Listing::remove_range": "false",  # bool: false => nothing removed
    "mach::listing::Listing::renum": "err",          # Result: Err => unchanged (C14.e)
    "mach::listing::Listing::clear": None,
    "mach::listing::Listing::load_str": None,
}
# functions of mach::runtime allowed to change the stored program
RUNTIME_MUTATORS = {
    "mach::runtime::Runtime::enter_indirect": "numbered line typed at the prompt",
    "mach::runtime::Runtime::delete": "DELETE statement",
    "mach::runtime::Runtime::renum": "RENUM statement",
    "mach::runtime::Runtime::new_": "NEW statement / load",
    "mach::runtime::Runtime::set_listing": "program load (UI)",
}
SYNC = {"mach::runtime::Runtime::enter_direct", "mach::runtime::Runtime::enter"}


def source_writers(cr):
    out = {}
    for p, f in cr.fns.items():
        hits = []
        for b, i, st in f.assigns():
            pl = st["place"]
            if pl["proj"] and pl["proj"][-1]["k"] == "field" and pl["proj"][-1]["name"] == "source" \
                    and pl["proj"][-1].get("adt") == LISTING:
                hits.append(("store", st["span"]))
            rv = st["rv"]
            if rv["k"] == "ref" and rv["mut"] and rv["place"]["proj"] and \
                    rv["place"]["proj"][-1].get("name") == "source" and \
                    rv["place"]["proj"][-1].get("adt") == LISTING:
                hits.append(("mutref", st["span"]))
        if hits:
            out[p] = hits
    return out


def run(ctx):
    cr = ctx.lib
    ctx.rule("C04.a", "Listing.source is private to mach::listing; its writers (stores and &mut "
             "borrows) are exactly the reviewed mutators; the functions of mach::runtime that "
             "call a mutator or assign self.listing are exactly the reviewed five")
    ctx.rule("C04.b", "in each of those functions, a may-analysis over (dirty known true, program "
             "mutated) finds no return with mutated && !dirty; the mutator's own no-change "
             "result (None / false / Err) may skip the write; the only store of a non-true value "
             "to dirty is in enter_direct and is dominated by Program::clear + codegen of the "
             "whole listing")
    ctx.rule("C04.c", "the recompile branch of enter_direct clears every address-bearing piece of "
             "state: stack (Return/Next addresses), functions (entry addresses), cont; and "
             "enter_direct re-seats pc / entry_address / tr after link()")
    ctx.rule("C04.d", "the mutator-calling functions reachable from execute_loop are exactly "
             "delete, renum, new_; Program.direct_address is written only by Program::clear/link")
    ctx.rule("C04.e", "a direct-mode statement cannot add to the stored program's code or data: "
             "Link::append refuses a fragment carrying DATA once the direct part has begun "
             "(direct_set) BEFORE it appends anything - the ILLEGAL DIRECT exit is not reachable "
             "from any appending call; the direct part is dropped before the next direct line "
             "(Program::clear/compile drain from direct_address)")
    rule_a(ctx, cr)
    rule_b(ctx, cr)
    rule_c(ctx, cr)
    rule_d(ctx, cr)
    rule_e(ctx, cr)


def rule_a(ctx, cr):
    fld = {f["name"]: f for f in cr.fields(LISTING)}
    ctx.check("source" in fld and fld["source"]["vis"] == "in mach::listing", "C04.a",
              "Listing.source/private", "", "field is private to mach::listing",
              "Listing.source is no longer private to its module: writers outside "
              "mach::listing cannot be enumerated")
    ctx.check("Arc<std::collections::BTreeMap<" in fld.get("source", {}).get("ty", ""), "C04.a",
              "Listing.source/type", "", "source: %s" % fld.get("source", {}).get("ty"))
    ws = source_writers(cr)
    ctx.floor("C04.a", "writers of Listing.source", len(ws), 6)
    for p in sorted(ws):
        ctx.touch(p)
        ctx.check(p in MUTATORS, "C04.a", "source-writer/%s" % p, ws[p][0][1],
                  "reviewed mutator of the stored program",
                  "new function writing Listing.source: not in the reviewed mutator table, so "
                  "nothing guarantees its callers invalidate the compiled program")
    for p in MUTATORS:
        ctx.check(p in ws or p == "mach::listing::Listing::load_str" and p in cr.fns, "C04.a",
                  "mutator-exists/%s" % p, "", "mutator present")
    # callers inside the lib crate
    callers = {}
    for m in MUTATORS:
        for c in cr.callers_of(m):
            if c.startswith("mach::listing::"):
                continue
            callers.setdefault(c, set()).add(m)
    for p, f in cr.fns.items():
        if f.field_stores("listing") and not p.startswith("<"):
            callers.setdefault(p, set()).add("self.listing = ..")
    ctx.floor("C04.a", "runtime functions that change the stored program", len(callers), 5)
    for p in sorted(callers):
        ctx.touch(p)
        ctx.check(p in RUNTIME_MUTATORS, "C04.a", "program-mutator/%s" % p, cr.fns[p].span,
                  "%s (%s)" % (RUNTIME_MUTATORS.get(p), sorted(callers[p])),
                  "new path that changes the stored program (%s) outside the reviewed table"
                  % sorted(callers[p]))
    return callers


def always_sets_dirty(cr, cache={}):
    """fns of Runtime every normal return of which has stored dirty = true last"""
    if "v" in cache:
        return cache["v"]
    res = set()
    changed = True
    while changed:
        changed = False
        for p, f in cr.fns.items():
            if not p.startswith(RUNTIME + "::") or p in res:
                continue
            st = analyse_dirty(cr, f, res, track_mutation=False)
            if st is not None and st and all(d for d, _m in st):
                res.add(p)
                changed = True
    cache["v"] = res
    return res


def _dirty_events(cr, f, b, always):
    """ordered events of block b: ('set', True|False|None) / ('mut', name, Call) / ('sync',)"""
    ev = []
    for st in f.blocks[b]["stmts"]:
        if st["k"] != "assign":
            continue
        pl = st["place"]
        if pl["proj"] and pl["proj"][-1]["k"] == "field" and pl["proj"][-1]["name"] == "dirty" \
                and pl["proj"][-1].get("adt") == RUNTIME:
            v = f.value_of_operand(st["rv"]["op"]) if st["rv"]["k"] == "use" else None
            cv = None
            if v and v.get("k") == "const":
                cv = v["const"].get("bool")
            ev.append(("set", cv, st["span"]))
        if pl["proj"] and pl["proj"][-1]["k"] == "field" and pl["proj"][-1]["name"] == "listing" \
                and pl["proj"][-1].get("adt") == RUNTIME:
            ev.append(("mut", "self.listing = ..", None))
    c = f.call_at(b)
    if c is not None:
        if c.name in MUTATORS:
            ev.append(("mut", c.name, c))
        elif c.name in always:
            ev.append(("set", True, c.span))
        elif c.name in SYNC:
            ev.append(("sync",))
    return ev


def _nochange_edge(f, cond, mcall, kind):
    """does this edge condition say that mutator call `mcall` changed nothing?"""
    if mcall is None or kind is None:
        return False
    dest = f.cplace(mcall.dest)
    if kind == "false":
        src = f._cond_src.get(cond)
        return (cond[0] == "eq" and cond[2] is False and src is not None
                and src.get("k") == "call" and src["call"].bb == mcall.bb)
    if kind == "none":
        if cond[0] == "variant" and cond[1] == dest and cond[3] == "None":
            return True
        src = f._cond_src.get(cond)
        if cond[0] == "eq" and src is not None and src.get("k") == "call":
            c2 = src["call"]
            nm = c2.callee or ""
            if nm.endswith("Option::<T>::is_some") and cond[2] is False or \
                    nm.endswith("Option::<T>::is_none") and cond[2] is True:
                p = op_place(c2.args[0])
                if p is not None:
                    s, _ = f.canon_place({"local": p["local"],
                                          "proj": list(p["proj"]) + [{"k": "deref"}]})
                    return s == dest
        return False
    if kind == "err":
        # `?` : branch(dest) -> Break
        if cond[0] == "variant" and cond[3] == "Break":
            m = re.match(r"^_(\d+)$", cond[1])
            if m:
                v = f.value_of_local(int(m.group(1)))
                if v.get("k") == "call" and (v["call"].callee or "").endswith("Try::branch"):
                    p = op_place(v["call"].args[0])
                    return p is not None and f.cplace(p) == dest
        if cond[0] == "variant" and cond[1] == dest and cond[3] == "Err":
            return True
    return False


def analyse_dirty(cr, f, always, track_mutation=True):
    """may-analysis; returns set of (dirty_true, mutated) states at returns, or None"""
    order = f.rpo()
    IN = {b: set() for b in order}
    IN[0] = {(False, False)}
    mcalls = [c for c in f.calls() if c.name in MUTATORS]
    changed = True
    it = 0
    while changed and it < 50:
        changed = False
        it += 1
        for b in order:
            if not IN[b]:
                continue
            out = set()
            evs = _dirty_events(cr, f, b, always)
            for d, m in IN[b]:
                for e in evs:
                    if e[0] == "set":
                        d = (e[1] is True)
                    elif e[0] == "mut" and track_mutation:
                        m = True
                    elif e[0] == "sync":
                        if d or not m:
                            d, m = False, False
                out.add((d, m))
            ec = f.edge_conds(b)
            for s in f.succ(b):
                st_out = out
                if track_mutation:
                    for mc in mcalls:
                        kind = MUTATORS.get(mc.name)
                        if kind and any(_nochange_edge(f, c, mc, kind) for c in ec.get(s, ())) \
                                and not any(o is not mc and f.can_reach(o.bb, b)
                                            for o in mcalls):
                            # the only mutator on this path reported "nothing changed"
                            st_out = {(d, False) for d, _m in out}
                if not st_out <= IN[s]:
                    IN[s] |= st_out
                    changed = True
    res = set()
    for b in f.return_blocks():
        evs = _dirty_events(cr, f, b, always)
        for d, m in IN[b]:
            res.add((d, m))
    return res


def rule_b(ctx, cr):
    always = always_sets_dirty(cr)
    ctx.notes.append("functions that always leave dirty = true: %s" % sorted(always))
    n = 0
    for p in sorted(RUNTIME_MUTATORS):
        f = cr.fn(p)
        if f is None:
            ctx.missing("C04.b", p)
            continue
        ctx.touch(f)
        n += 1
        st = analyse_dirty(cr, f, always)
        bad = [s for s in st if s[1] and not s[0]]
        ctx.check(not bad, "C04.b", "%s/dirty-after-mutation" % p, f.span,
                  "every return after a change of the stored program has dirty = true "
                  "(states at returns: %s)" % sorted(st),
                  "some path changes the stored program and returns without dirty = true: the "
                  "next RUN executes the previous compilation")
    ctx.floor("C04.b", "mutating runtime functions analysed", n, 5)
    # the table above trusts `remove_range() == false` to mean "nothing removed": no literal
    # `false` may be returned on a path that went through the removal
    rr = cr.need_fn("mach::listing::Listing::remove_range")
    ctx.touch(rr)
    muts = rr.calls_matching(r"(BTreeMap::<K, V, A>::remove|Arc::<T, A>::make_mut)$")
    if ctx.check(bool(muts), "C04.b", "remove_range/mutates", rr.span, "removal calls found"):
        after = set()
        for c in muts:
            after |= rr.reach_set(c.bb)
        lying = [st["span"] for b, i, st in rr.assigns()
                 if st["place"]["local"] == 0 and not st["place"]["proj"] and b in after
                 and st["rv"]["k"] == "use" and op_const(st["rv"]["op"]) is not None
                 and op_const(st["rv"]["op"]).get("bool") is False]
        ctx.check(not lying, "C04.b", "remove_range/reports-change", rr.span,
                  "no `false` result after lines were removed",
                  "remove_range returns the literal false on a path that removed lines (%s): "
                  "Runtime::delete takes it for `nothing changed`, dirty stays false and RUN "
                  "executes the deleted lines" % lying)
    # every store of a value that is not the literal `true`
    k = 0
    for p, f in sorted(cr.fns.items()):
        for b, st, v in f.field_stores("dirty"):
            if st["place"]["proj"][-1].get("adt") != RUNTIME:
                continue
            cv = v["const"].get("bool") if v and v.get("k") == "const" else None
            if cv is True:
                continue
            k += 1
            key = "%s/dirty-store#%d" % (p, k)
            if p != "mach::runtime::Runtime::enter_direct":
                ctx.bad("C04.b", key, st["span"],
                        "dirty is assigned `%s` outside enter_direct: a computed or false value "
                        "can clear a pending recompile" % f.describe_value(v))
                continue
            clear = f.calls_to("mach::program::Program::clear")
            cg = [c for c in f.calls_to("mach::program::Program::codegen")
                  if "Listing::lines" in f.describe(c.args[1])]
            ok = (cv is False and clear and cg and
                  all(f.dominates(c.bb, b) for c in clear[:1] + cg[:1]))
            ctx.check(ok, "C04.b", key, st["span"],
                      "dirty = false is dominated by Program::clear and codegen(listing.lines())",
                      "dirty is cleared without a preceding full recompile of the listing")
    ctx.check(k >= 1, "C04.b", "anchor/dirty-false-store", "", "the recompile clears dirty")


def rule_c(ctx, cr):
    f = cr.need_fn("mach::runtime::Runtime::enter_direct")
    ctx.touch(f)
    clear = f.calls_to("mach::program::Program::clear")
    if not ctx.check(len(clear) == 1, "C04.c", "enter_direct/recompile-branch", f.span,
                     "one recompile branch (Program::clear)"):
        return
    cb = clear[0].bb
    ctx.check(any(c[0] == "eq" and ".dirty" in str(c[1]) and c[2] is True
                  for c in f.conds_at(cb)), "C04.c", "enter_direct/recompile-under-dirty",
              clear[0].span, "the recompile is conditional on dirty")
    region = {b for b in f.reachable() if f.dominates(cb, b)}
    outside = set(f.reachable()) - region

    def on_all_paths(evb):
        # every path from the region entry to the outside passes evb
        return not (f.reach_set(cb, avoid={evb}) & outside) if evb != cb else True
    need = {
        "stack": ("mach::stack::Stack<T>::clear", ".stack",
                  "GOSUB return addresses and FOR frames (Val::Return/Next hold code addresses)"),
        "functions": ("std::collections::HashMap::<K, V, S, A>::clear", ".functions",
                      "DEF FN entry addresses"),
    }
    for name, (callee, suffix, why) in need.items():
        evs = [c for c in f.calls_to(callee)
               if c.bb in region and f.describe(c.args[0]).endswith(suffix)]
        ok = bool(evs) and any(on_all_paths(c.bb) for c in evs)
        ctx.check(ok, "C04.c", "enter_direct/recompile-clears/%s" % name, clear[0].span,
                  "cleared on the recompile path: " + why,
                  "the recompile keeps Runtime.%s: %s of the replaced code survive an edit and "
                  "can be resumed into the edited program" % (name, why))
    cont = [b for b, st, v in f.field_stores("cont")
            if b in region and f.stored_variant(v) == ("mach::runtime::State", "Stopped")]
    ctx.check(bool(cont) and any(on_all_paths(b) for b in cont), "C04.c",
              "enter_direct/recompile-clears/cont", clear[0].span,
              "the continuation point is cancelled on the recompile path",
              "the recompile keeps Runtime.cont: CONT resumes at an address of the replaced code")
    # the READ pointer indexes Link.data, which the recompile rebuilds
    lc = cr.need_fn("mach::link::Link::clear")
    ctx.touch(lc)
    dp = [b for b, st, v in lc.field_stores("data_pos") if lc.describe_value(v) == "const:0"]
    rets = set(lc.return_blocks())
    ctx.check(bool(dp) and not (lc.reach_set(0, avoid=set(dp)) & rets), "C04.c",
              "Link::clear/resets-data_pos", lc.span,
              "the DATA read pointer is rewound when the data segment is rebuilt",
              "Link::clear empties the data segment but keeps data_pos: after an edit a direct "
              "READ / GOTO continues from the old position inside the NEW program's DATA")
    # compile diagnostics of the replaced program (and of the last direct line) are dropped
    pc_ = cr.need_fn("mach::program::Program::clear")
    ctx.touch(pc_)
    for fld in ("errors", "indirect_errors"):
        st = [b for b, s_, v in pc_.field_stores(fld)]
        ctx.check(bool(st) and not (pc_.reach_set(0, avoid=set(st)) & set(pc_.return_blocks())),
                  "C04.c", "Program::clear/resets-%s" % fld, pc_.span,
                  "Program::clear starts the recompile with an empty %s list" % fld,
                  "Program::clear keeps %s: the compile errors of the last direct line (or of the "
                  "old program) are taken over as the new program's errors, so RUN refuses a "
                  "valid listing with a stale diagnostic" % fld)
    # pc / entry_address / tr are re-seated from link()'s result on every call
    link = f.calls_to("mach::program::Program::link")
    ctx.check(len(link) == 1, "C04.c", "enter_direct/link", f.span, "one call to Program::link")
    for fld in ("pc", "entry_address", "tr"):
        st = f.field_stores(fld)
        ok = bool(st) and link and all(f.dominates(link[0].bb, b) for b, _s, _v in st) and \
            any(f.dominates(b, rb) for b, _s, _v in st for rb in f.return_blocks())
        ctx.check(ok, "C04.c", "enter_direct/reseats/%s" % fld, f.span,
                  "%s is set after link() on every path" % fld)
    # a numbered line cancels the continuation point immediately
    ei = cr.need_fn("mach::runtime::Runtime::enter_indirect")
    st = [b for b, s, v in ei.field_stores("cont")
          if ei.stored_variant(v) == ("mach::runtime::State", "Stopped")]
    ctx.check(bool(st) and any(all(ei.dominates(b, rb) for rb in ei.return_blocks())
                               for b in st), "C04.c", "enter_indirect/cancels-cont", ei.span,
              "typing a numbered line cancels CONT on every path")


def rule_d(ctx, cr):
    seen = cr.reachable_from(["mach::runtime::Runtime::execute_loop"])
    reach_mut = set()
    for p in seen:
        if not p.startswith(RUNTIME):
            continue
        f = cr.fns[p]
        if any(c.name in MUTATORS for c in f.calls()) or f.field_stores("listing"):
            reach_mut.add(p)
    want = {"mach::runtime::Runtime::delete", "mach::runtime::Runtime::renum",
            "mach::runtime::Runtime::new_"}
    for p in sorted(reach_mut | want):
        ctx.check(p in want and p in reach_mut, "C04.d", "vm-reaches-mutator/%s" % p,
                  cr.fns[p].span if p in cr.fns else "",
                  "editing command handler",
                  "a VM handler other than DELETE/RENUM/NEW can change the stored program"
                  if p not in want else "handler no longer reaches its mutator")
    # dispatch: those three are called from the arms of their own opcodes only
    lp = cr.need_fn("mach::runtime::Runtime::execute_loop")
    ctx.touch(lp)
    op_place_s = None
    for c in lp.calls():
        if c.name in want:
            vs = None
            for cond in lp.conds_at(c.bb):
                if cond[0] == "variant" and cond[2] == "mach::opcode::Opcode":
                    vs = cond[3]
            exp = {"delete": "Delete", "renum": "Renum", "new_": "New"}[c.name.rsplit("::", 1)[1]]
            ctx.check(vs == exp, "C04.d", "dispatch/%s" % exp, c.span,
                      "Opcode::%s -> %s" % (exp, c.name),
                      "%s is dispatched from Opcode::%s" % (c.name, vs))
    # Program.direct_address writers
    for p, f in sorted(cr.fns.items()):
        for b, st, v in f.field_stores("direct_address"):
            ctx.check(p in ("mach::program::Program::clear", "mach::program::Program::link"),
                      "C04.d", "direct_address-writer/%s" % p, st["span"],
                      "direct_address is written by Program::clear/link only",
                      "direct_address written elsewhere: a direct line could overwrite the "
                      "compiled program")
    cg = cr.need_fn("mach::program::Program::codegen")
    ctx.touch(cg)
    dr = cg.calls_to("mach::link::Link::drain")
    ctx.check(len(dr) == 1 and "direct_address" in cg.describe(dr[0].args[1]), "C04.d",
              "codegen/drain-from-direct_address", cg.span,
              "a direct line only truncates the code at direct_address")


def rule_e(ctx, cr):
    f = cr.need_fn("mach::link::Link::append")
    ctx.touch(f)
    ill = [b for b, code, _s in f.error_codes() if code == "IllegalDirect"]
    muts = [c for c in f.calls() if re.search(r"(Stack<T>::append|BTreeMap::<K, V, A>::insert|"
                                              r"HashMap::<K, V, S, A>::insert|Vec::<T, A>::push)$",
                                              c.name)]
    ctx.floor("C04.e", "appending calls in Link::append", len(muts), 3)
    ok = len(ill) == 1 and not any(f.can_reach(c.bb, ill[0]) for c in muts)
    ctx.check(ok, "C04.e", "Link::append/direct-data-rejected-first", f.span,
              "ILLEGAL DIRECT is raised before anything is appended",
              "Link::append raises ILLEGAL DIRECT %s: the rejected direct DATA statement has "
              "already been appended to the program's data segment, so a later READ delivers a "
              "constant that no listed line contains"
              % ("after appending" if ill else "nowhere (direct DATA is accepted)"))
    sd = cr.need_fn("mach::link::Link::set_start_of_direct")
    ctx.touch(sd)
    on = [b for b, s_, v in sd.field_stores("direct_set") if sd.describe_value(v) == "const:True"]
    off = [p_ for p_, g in cr.fns.items() for b, s_, v in g.field_stores("direct_set")
           if g.describe_value(v) != "const:True" and not p_.endswith("::clear")
           and not p_.endswith("::default") and not p_.endswith("::new")]
    ctx.check(bool(on) and not off, "C04.e", "Link/direct_set-raised-at-direct-start", sd.span,
              "set_start_of_direct raises direct_set; only clear() lowers it",
              "direct_set is not raised when the direct part begins (or is lowered by %s): the "
              "guard in Link::append never applies and direct DATA is appended to the program" % off)
    guard = False
    for b in ill:
        for c in f.conds_at(b):
            if c[0] == "eq" and "direct_set" in str(c[1]) and c[2] is True:
                guard = True
    ctx.check(guard, "C04.e", "Link::append/direct-data-guard", f.span,
              "the rejection is under `direct_set`")
