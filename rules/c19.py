"""C19 - compile-time diagnostics point into the listed line and block execution.

Decides: the execution gate (the Jump arm tests `errors && target inside the program`, direct
errors stop before the VM loop, the other ways into the program use addresses that are dropped
whenever errors are recomputed); column plumbing (parser columns advance by the character width
of each token's listed text; Error::column re-bases by the listed number prefix); column
provenance of link-time diagnostics; line attribution. Does not decide exact ranges for every
statement shape."""
import re

from rules import tables


def run(ctx):
    cr = ctx.lib
    ctx.rule("C19.a", "gate: after Opcode::Jump stores pc, `has_indirect_errors && pc < "
             "entry_address` stops with the compile errors; execute() reports direct-line errors "
             "before it enters the VM loop; the other writers of pc that can enter the program "
             "from direct mode (RETURN, NEXT, FNx, CONT) take their addresses from state that the "
             "recompile clears (C04.c)")
    ctx.rule("C19.b", "columns are characters of the listed text: BasicParser::next advances "
             "col.end by chars().count() of the token's Display string; Error::column adds the "
             "length of the listed line number plus the one separator of Line's Display")
    ctx.rule("C19.c", "UNDEFINED LINE underlines the number: the Column handed to push_goto / "
             "push_gosub / push_restore / push_run comes from the popped operand, not from the "
             "statement; WHILE/WEND diagnostics use the statement's own column (the keyword)")
    ctx.rule("C19.d", "every link-time error carries line_number_for(address) and the recorded "
             "column; parse errors get the line number in parse(); listing columns are matched "
             "by line number")
    rule_a(ctx, cr)
    rule_abs_pc(ctx, cr)
    rule_b(ctx, cr)
    rule_c(ctx, cr)
    rule_d(ctx, cr)
    from rules import codegen
    codegen.check_always_links(ctx, "C19.d", cr)


def rule_a(ctx, cr):
    lp = cr.need_fn("mach::runtime::Runtime::execute_loop")
    ctx.touch(lp)
    ev = [(b, st) for b, i, st in lp.aggregates("mach::runtime::Event", "Errors")]
    ok = False
    if len(ev) == 1:
        b = ev[0][0]
        jump = any(c[0] == "variant" and c[2] == "mach::opcode::Opcode" and c[3] == "Jump"
                   for d in lp.dominators().get(b, ()) for c in lp.conds_at(d))
        lt = any(op == "Lt" and truth and lp.describe(l).endswith(".pc")
                 and lp.describe(r).endswith(".entry_address")
                 for d in lp.dominators().get(b, ()) for op, l, r, truth in lp.cmp_conds_at(d))
        flag = any(c[0] == "eq" and c[2] is True and "indirect_errors" in str(c[1])
                   for d in lp.dominators().get(b, ()) for c in lp.conds_at(d))
        pcst = [bb for bb, s, v in lp.field_stores("pc") if lp.dominates(bb, b)]
        ok = jump and lt and flag and len(pcst) >= 2
        d = lp.describe(ev[0][1]["rv"]["ops"][0])
        ok = ok and "indirect_errors" in d
    ctx.check(ok, "C19.a", "execute_loop/jump-gate", lp.span,
              "a jump into a program with compile errors stops and reports them",
              "the Jump arm no longer tests `has_indirect_errors && pc < entry_address` before "
              "continuing: GOTO/GOSUB/RUN into a program with compile errors executes it")
    st = [bb for bb, s, v in lp.field_stores("state")
          if lp.stored_variant(v) == ("mach::runtime::State", "Stopped")]
    ctx.check(bool(ev) and any(lp.dominates(bb, ev[0][0]) for bb in st), "C19.a",
              "execute_loop/jump-gate-stops", lp.span, "the gate leaves the machine stopped")
    ex = cr.need_fn("mach::runtime::Runtime::execute")
    ctx.touch(ex)
    c = ex.calls_to(lp.path)
    okd = False
    if len(c) == 1:
        evd = [b for b, i, s in ex.aggregates("mach::runtime::Event", "Errors")
               if "direct_errors" in ex.describe(s["rv"]["ops"][0])]
        okd = bool(evd) and all(not ex.can_reach(c[0].bb, b) for b in evd) and \
            any(ex.can_reach(b, c[0].bb) or True for b in evd)
        # the error return is on the `!is_empty()` side, the loop on the other
        okd = okd and any(cc[0] == "eq" and "is_empty" in str(cc[1]) and "direct_errors" in str(cc[1])
                          for b in evd for cc in ex.conds_at(b))
    ctx.check(okd, "C19.a", "execute/direct-errors-before-loop", ex.span,
              "a direct line with compile errors is reported instead of executed")
    # the ungated writers take addresses from cleared state: reference C04.c
    ed = cr.need_fn("mach::runtime::Runtime::enter_direct")
    cl = {("stack", bool([x for x in ed.calls_to("mach::stack::Stack<T>::clear")])),
          ("functions", bool([x for x in ed.calls_matching(r"HashMap::<K, V, S, A>::clear$")]))}
    ctx.check(all(v for _k, v in cl), "C19.a", "ungated-writers/addresses-invalidated", ed.span,
              "RETURN/NEXT/FNx/CONT addresses are dropped whenever errors are recomputed",
              "the recompile keeps %s: a direct RETURN/NEXT/FNx can enter a program that has "
              "compile errors" % [k for k, v in cl if not v])


ABS_PC = {
    ("cont", "cont_pc"): "CONT: the saved pc (dropped on recompile, C04.c)",
    ("enter_direct", "link"): "start of the direct line's code",
    ("execute", "Return"): "INPUT redo: back to the marker of the same INPUT statement",
    ("execute_loop", "Jump"): "the gated Jump arm",
    ("execute_loop", "IfNot"): "IfNot: a local label of the same statement",
    ("fn", "functions"): "FNx: entry recorded by DEF (dropped on recompile, C04.c)",
    ("next", "Next"): "NEXT: loop address from the stack (dropped on recompile, C04.c)",
    ("return", "Return"): "RETURN: address from the stack (dropped on recompile, C04.c)",
}


IFNOT_BUILDERS = {
    "mach::link::Link::push_ifnot": "target = the symbol argument (checked at every call site)",
    "mach::link::Link::push_while": "target = the WEND paired by position in link_whiles",
    "mach::link::Link::link": "re-builds the opcode with the resolved address of the same symbol",
    "<mach::opcode::Opcode as std::clone::Clone>::clone": "derived copy",
}


def rule_abs_pc(ctx, cr):
    got = {}
    for p, f in sorted(cr.fns.items()):
        for b, st, v in f.field_stores("pc"):
            if st["place"]["proj"][-1].get("adt") != "mach::runtime::Runtime":
                continue
            d = f.describe_value(v) or ""
            if re.match(r"^\(place:\(\*_1\)\.pc (Add|Sub)", d):
                continue            # relative: pc +/- n
            fn = p.rsplit("::", 1)[1]
            kind = None
            for k in ("cont_pc", "Program::link", "as Jump", "as IfNot", "functions", "as Next",
                      "as Return"):
                if k in d:
                    kind = k.replace("Program::", "").replace("as ", "")
                    break
            got.setdefault((fn, kind or d[:60]), st["span"])
    for key, sp in sorted(got.items(), key=str):
        ctx.check(key in ABS_PC, "C19.a", "pc/absolute-writer/%s/%s" % key, sp,
                  ABS_PC.get(key, ""),
                  "Runtime::%s now loads pc with an address taken from %s: the only gate that "
                  "keeps a direct statement out of a program with compile errors is in the Jump "
                  "arm of the dispatch loop, so this transfer bypasses it" % key)
    ctx.floor("C19.a", "absolute writers of pc", len(got), 8)
    # the IfNot row holds only if IfNot never targets a line: its symbol is always a fresh local
    # label (Link::next_symbol), and only push_ifnot builds the opcode
    n = 0
    for p, f in sorted(cr.fns.items()):
        for c in f.calls_to("mach::link::Link::push_ifnot"):
            n += 1
            v = f.value_of_operand(c.args[2])
            ok = bool(v and v.get("k") == "call" and
                      (v["call"].callee or "").endswith("mach::link::Link::next_symbol"))
            ctx.check(ok, "C19.a", "IfNot/%s#%d/local-label" % (p.rsplit("::", 1)[1], n), c.span,
                      "the conditional branch targets a label from next_symbol()",
                      "an IfNot is emitted with a symbol that is not a fresh local label (%s): a "
                      "conditional branch to a LINE enters the program without passing the "
                      "compile-error gate of the Jump arm (direct `IF 0 THEN .. ELSE 100` runs a "
                      "program that has errors)" % f.describe(c.args[2])[:80])
        for b, i, st in f.aggregates("mach::opcode::Opcode", "IfNot"):
            ctx.check(p in IFNOT_BUILDERS, "C19.a", "IfNot/built-by/%s" % p.rsplit("::", 1)[1],
                      st["span"], IFNOT_BUILDERS.get(p, ""),
                      "Opcode::IfNot is built in %s, where its target is not known to be a local "
                      "label (reviewed builders: %s)" % (p, sorted(IFNOT_BUILDERS)))
    ctx.floor("C19.a", "IfNot emission sites", n, 1)


def rule_b(ctx, cr):
    n = cr.need_fn("lang::parse::BasicParser<'a>::next")
    ctx.touch(n)
    st = n.field_stores("end")
    ok = False
    for b, s, v in st:
        d = n.describe_value(v) or ""
        if "Chars<'a> as std::iter::Iterator>::count" in d and ".col.end Add" in d:
            rv = s["rv"]
            names = set()
            if rv["k"] == "use":
                names = n.back_slice_calls(rv["op"])
            elif rv["k"] == "binop":      # overflow checks off: the Add is stored directly
                names = n.back_slice_calls(rv["l"]) | n.back_slice_calls(rv["r"])
            ok = any(x.endswith("ToString>::to_string") for x in names)
    ctx.check(ok, "C19.b", "parser/column-advance", n.span,
              "col.end += token.to_string().chars().count()",
              "the parser no longer measures a token by the character count of its listed text: "
              "columns drift from the listing for tokens whose width is computed differently")
    e = cr.need_fn("lang::error::Error::column")
    ctx.touch(e)
    adds = [(e.describe(s["rv"]["l"]), e.describe(s["rv"]["r"])) for b, i, s in e.assigns()
            if s["rv"]["k"] == "binop" and s["rv"]["op"].startswith("Add")]
    off = [a for a in adds if "String::len" in a[0] and a[1] == "const:1"]
    both = [a for a in adds if (".column.start" in a[0] or ".column.end" in a[0])]
    ctx.check(len(off) == 1 and len(both) == 2, "C19.b", "Error::column/prefix-offset", e.span,
              "offset = digits of the line number + 1, added to both ends",
              "Error::column computes %s" % adds)
    ld = cr.need_fn("<lang::line::Line as std::fmt::Display>::fmt")
    tpl = set()
    for b in ld.reachable():
        for s in tables.block_strings(ld, b):
            tpl.add(s)
    ctx.check("{} {}" in tpl, "C19.b", "Line::fmt/one-separator", ld.span,
              "the listed line has exactly one separator after the number (the +1 above)")


def rule_c(ctx, cr):
    want = {"goto": ("push_goto", "operand"), "gosub": ("push_gosub", "operand"),
            "restore": ("push_restore", "operand"), "run": ("push_run", "operand"),
            "while": ("push_while", "statement"), "wend": ("push_wend", "statement")}
    for name, (callee, src) in sorted(want.items()):
        g = cr.need_fn("mach::codegen::Generator::" + name)
        ctx.touch(g)
        cs = g.calls_to("mach::link::Link::" + callee)
        ok = bool(cs)
        for c in cs:
            d = g.describe(c.args[1])
            from_operand = "expr_pop_line_number" in d or "Stack<T>::pop" in d
            from_stmt = "arg:3" in d
            ok = ok and (from_operand and not from_stmt if src == "operand" else from_stmt)
        ctx.check(ok, "C19.c", "%s/column-source" % name, g.span,
                  "%s receives the %s's column" % (callee, src),
                  "%s is given %s: the diagnostic would not underline the %s"
                  % (callee, [g.describe(c.args[1])[:60] for c in cs],
                     "line number" if src == "operand" else "keyword"))
    on = cr.need_fn("mach::codegen::Generator::on")
    cs = on.calls_to("mach::link::Link::push_goto")
    okc = len(cs) == 1 and "Iterator>::next" in on.describe(cs[0].args[1])
    ctx.check(okc, "C19.c", "on/column-source", on.span,
              "each ON target is reported with its own column")
    for name in ("push_goto", "push_gosub", "push_restore", "push_run", "push_ifnot", "push_jump"):
        f = cr.need_fn("mach::link::Link::" + name)
        ins = [c for c in f.calls_matching(r"HashMap::<K, V, S, A>::insert$")
               if f.describe(c.args[0]).endswith(".unlinked")]
        okk = bool(ins)
        for c in ins:
            v = f.value_of_operand(c.args[2])
            okk = okk and bool(v and v.get("k") == "rv" and v["rv"].get("agg") == "tuple"
                               and "arg:2" in f.describe(v["rv"]["ops"][0]))
        ctx.check(okk, "C19.c", "%s/records-column" % name, f.span,
                  "the unresolved reference remembers its column")


def rule_d(ctx, cr):
    for name in ("link", "link_whiles"):
        f = cr.need_fn("mach::link::Link::" + name)
        ctx.touch(f)
        news = f.calls_to("lang::error::Error::new")
        inl = f.calls_to("lang::error::Error::in_line_number")
        inc = f.calls_to("lang::error::Error::in_column")
        ok = len(inl) == len(news) and len(inc) == len(news) and \
            all("line_number_for" in f.describe(c.args[1]) for c in inl)
        ctx.check(ok, "C19.d", "%s/errors-carry-line-and-column" % name, f.span,
                  "%d link-time errors, each with line_number_for(addr) and its column" % len(news),
                  "%s builds %d errors but %d carry a line number from line_number_for and %d a "
                  "column" % (name, len(news), len(inl), len(inc)))
    lk = cr.need_fn("mach::link::Link::link")
    und = [b for b, c, _s in lk.error_codes() if c == "UndefinedLine"]
    seen = [(op, t) for b in und for op, l, r, t in lk.cmp_conds_at(b) if lk.describe(r) == "const:0"]
    ctx.check(bool(und) and all((op, t) in (("Ge", True), ("Lt", False)) for op, t in seen) and seen,
              "C19.d", "link/undefined-line-includes-line-0", lk.span,
              "an unresolved reference to any line number >= 0 is UNDEFINED LINE",
              "Link::link raises UNDEFINED LINE under %s: a reference to a missing line 0 is not "
              "reported as an undefined line" % seen)
    p = cr.need_fn("lang::parse::parse")
    ctx.check(bool(p.calls_to("lang::error::Error::in_line_number")), "C19.d",
              "parse/attaches-line-number", p.span, "parse errors get the line's number")
    pe = cr.need_fn("mach::program::Program::error")
    ok = any("line_number" in pe.describe(c.args[1])
             for c in pe.calls_to("lang::error::Error::in_line_number"))
    ctx.check(ok, "C19.d", "Program::error/attaches-current-line", pe.span,
              "codegen errors get the number of the line being compiled")
    ll = cr.need_fn("mach::listing::Listing::list_line")
    cl = cr.closures_of(ll.path)
    okl = any(c2.calls_to("lang::error::Error::line_number") for c2 in cl) and \
        any(c2.calls_to("lang::error::Error::column") for c2 in cl)
    ctx.check(okl, "C19.d", "list_line/columns-by-line-number", ll.span,
              "a listed line is decorated with the columns of the errors of that line")
    # ... of that line: the column is taken where the error's line number EQUALS the listed one
    for c2 in cl:
        # filter(|e| e.line_number() == n) form: the closure returns the comparison itself
        if c2.calls_to("lang::error::Error::line_number") and \
                not c2.calls_to("lang::error::Error::column"):
            for cmpc in c2.calls_matching(r"PartialEq[^()]*::(eq|ne)$"):
                ctx.check(cmpc.name.endswith("::eq"), "C19.d", "list_line/columns-of-equal-line",
                          cmpc.span, "errors are filtered by line number equality",
                          "the listed line is decorated with the columns of the errors of every "
                          "OTHER line: the underline shows under lines that have no error")
    for c2 in cl:
        for cc in c2.calls_to("lang::error::Error::column"):
            pol = None
            for c in c2.conds_at(cc.bb):
                s = str(c[1])
                if c[0] == "eq" and "Error::line_number" in s:
                    if re.match(r"^call:[^()]*PartialEq[^()]*::eq\(", s):
                        pol = c[2] is True
                    elif re.match(r"^call:[^()]*PartialEq[^()]*::ne\(", s):
                        pol = c[2] is False
                    elif re.match(r"^\(.* Eq .*\)$", s):
                        pol = c[2] is True
                    elif re.match(r"^\(.* Ne .*\)$", s):
                        pol = c[2] is False
            if pol is None:
                ctx.notes.append("list_line: column taken under no recognisable line-number test")
                continue
            ctx.check(pol, "C19.d", "list_line/columns-of-equal-line", cc.span,
                      "the column is used when the error's line number equals the listed line's",
                      "the listed line is decorated with the columns of the errors of every "
                      "OTHER line: the underline shows under lines that have no error")
