"""C05 - listing fidelity (LIST / SAVE then LOAD).

Decides the writer/reader table agreement that the fixed point needs: every spelling the lister
can emit for a keyword, operator, literal prefix or punctuation is a key of the scanner that
yields the same token; keyword table order respects prefixes; word separation matches
alphabetic spellings; SAVE writes what LOAD reads. Does not decide idempotence of number
scanning on its own output or byte-for-byte text preservation."""
import re

from rules import lextables as lt
from rules import tables

ALIASES = {("?", ("Word", "Print")): "? is the documented alias of PRINT (lists as PRINT)"}


def run(ctx):
    cr = ctx.lib
    ctx.rule("C05.a", "every Word variant's Display string is a key of the scanner (keyword table "
             "or single-character table) that yields that same variant; the only extra rows are "
             "the documented aliases")
    ctx.rule("C05.b", "every Operator variant's Display string re-lexes to it: single characters "
             "via match_minutia, words via the keyword table, two-character operators via a "
             "collapse_doubles row whose two patterns are the tokens of the two characters")
    ctx.rule("C05.c", "Literal prefixes written by Display (&H, &, \"..\") are the characters the "
             "scanners dispatch on / consume; Token punctuation rows equal the scanner's rows")
    ctx.rule("C05.d", "keyword table order: a keyword that is a proper prefix of another comes "
             "after it (the scan takes the first of the leftmost matches); keys are non-empty "
             "upper-case ASCII")
    ctx.rule("C05.e", "Operator::is_word(op) <=> Display(op) is alphabetic; Token::is_word is true "
             "for Word, Ident, Literal and delegates for Operator")
    ctx.rule("C05.f", "SAVE writes each Line through Display and LOAD feeds each text line to "
             "Listing::load_str (-> Line::new) under the same MAX_LINE_LEN constant as enter()")
    ctx.rule("C05.h", "push-back restores scanner state: in a scanner that un-reads a character "
             "(VecDeque::push_front), every scanner variable that is modified only because that "
             "character was consumed is re-assigned on the push-back path, so the token produced "
             "equals the token the same text produces when it ends before that character (what "
             "the lister writes)")
    ctx.rule("C05.g", "Line's Display separates number and text by exactly one blank, the blank "
             "BasicLexer::lex strips after a line number")
    rule_h(ctx, cr)
    rule_string_verbatim(ctx, cr)
    ctx.rule("C05.i", "a line and its listing are accepted or rejected alike at the end of the "
             "line: whatever end-of-line trimming removes, it does not leave an empty token that "
             "the listing cannot show")
    rule_i(ctx, cr)
    kw = lt.keywords(cr)
    mn = lt.minutia(cr)
    ctx.touch("lang::token::Token::scan_alphabetic", "lang::token::Token::match_minutia")
    ctx.floor("C05.a", "keyword table rows", len(kw), 49)
    ctx.floor("C05.a", "single-character table rows", len(mn), 16)
    kwmap = {}
    for s, kind, inner in kw:
        kwmap.setdefault(s, []).append((kind, inner))
    dups = [s for s, v in kwmap.items() if len(v) > 1]
    ctx.check(not dups, "C05.a", "keywords/unique", "", "keyword strings are unique",
              "duplicate keyword rows: %s" % dups)

    # ---- a: words
    wd = lt.display(cr, lt.WORD)
    ctx.touch("<lang::token::Word as std::fmt::Display>::fmt")
    variants = cr.variants(lt.WORD)
    ctx.floor("C05.a", "Word variants with a Display string", len(wd), len(variants))
    for v in variants:
        s = wd.get(v)
        if s is None:
            ctx.bad("C05.a", "Word/%s/display" % v, "", "no Display string extracted for Word::%s" % v)
            continue
        back = None
        if s in kwmap:
            back = kwmap[s][0]
        elif s in mn:
            back = mn[s]
        ok = back is not None and back[0] == "Word" and back[1] == ("Word", v)
        ctx.check(ok, "C05.a", "Word/%s" % v, "", "%r -> Word::%s" % (s, v),
                  "Word::%s lists as %r, which the scanner maps to %s: a listed line does not "
                  "re-enter as the same statement" % (v, s, back))
    for s, kind, inner in kw:
        if kind == "Word":
            ok = wd.get(inner[1]) == s or (s, inner) in ALIASES
            ctx.check(ok, "C05.a", "keyword-row/%s" % s, "", "row agrees with Display",
                      "keyword %r yields Word::%s whose listing is %r (undocumented alias: the "
                      "listing is not a fixed point)" % (s, inner[1], wd.get(inner[1])))
    for s, (kind, inner) in mn.items():
        if kind == "Word":
            ok = wd.get(inner[1]) == s or (s, inner) in ALIASES
            ctx.check(ok, "C05.a", "minutia-row/%s" % s, "", "row agrees with Display or is a "
                      "documented alias", "character %r yields Word::%s whose listing is %r"
                      % (s, inner[1], wd.get(inner[1])))

    # ---- b: operators
    od = lt.display(cr, lt.OPERATOR)
    ctx.touch("<lang::token::Operator as std::fmt::Display>::fmt")
    dbl = lt.collapse_table(cr, "lang::lex::BasicLexer::collapse_doubles")
    ctx.touch("lang::lex::BasicLexer::collapse_doubles")
    ovars = cr.variants(lt.OPERATOR)
    ctx.floor("C05.b", "Operator variants with a Display string", len(od), len(ovars))
    for v in ovars:
        s = od.get(v)
        if s is None:
            ctx.bad("C05.b", "Operator/%s/display" % v, "", "no Display string for Operator::%s" % v)
            continue
        ok = False
        how = ""
        if len(s) == 1 and s in mn:
            ok = mn[s] == ("Operator", ("Operator", v))
            how = "single character"
        elif s.isalpha():
            ok = kwmap.get(s, [None])[0] == ("Operator", ("Operator", v))
            how = "keyword"
        elif len(s) == 2 and all(ch in mn for ch in s):
            a, b = mn[s[0]], mn[s[1]]
            for pat, res in dbl:
                if res == ("Operator", v) and pat.get(0) == ("Operator", a[1][1]) and \
                        pat.get(1) == ("Operator", b[1][1]):
                    ok = True
            how = "collapse_doubles row"
        ctx.check(ok, "C05.b", "Operator/%s" % v, "", "%r re-lexes to Operator::%s (%s)" % (s, v, how),
                  "Operator::%s lists as %r, which does not lex back to it" % (v, s))

    # ---- c: literals and punctuation
    ld = lt.display(cr, "lang::token::Literal")
    ctx.touch("<lang::token::Literal as std::fmt::Display>::fmt")
    want = {"Hex": "&H{}", "Octal": "&{}", "String": '"{}"', "Single": "{}", "Double": "{}",
            "Integer": "{}"}
    for v, t in want.items():
        ctx.check(ld.get(v) == t, "C05.c", "Literal/%s/template" % v, "", "template %r" % t,
                  "Literal::%s lists with template %r (expected %r)" % (v, ld.get(v), t))
    nx = cr.need_fn("<lang::lex::BasicLexer as std::iter::Iterator>::next")
    ctx.touch(nx)
    disp = {}
    for ch, b, d, sp, _o in lt.char_consts(nx):
        disp.setdefault(ch, set())
    for c in nx.calls():
        if c.name.startswith("lang::lex::BasicLexer::"):
            for cond in nx.conds_at(c.bb):
                if cond[0] == "eq" and cond[2] is True:
                    m = re.search(r"Eq const:'(.)'\)$|Eq const:\"(.)\"\)$", str(cond[1]))
                    if m:
                        disp.setdefault(m.group(1) or m.group(2), set()).add(
                            c.name.rsplit("::", 1)[1])
    ctx.check("radix" in disp.get("&", ()), "C05.c", "dispatch/&", nx.span,
              "'&' dispatches to radix()", "'&' no longer dispatches to radix(): %s" % disp.get("&"))
    ctx.check("string" in disp.get('"', ()), "C05.c", 'dispatch/"', nx.span,
              "'\"' dispatches to string()", "'\"' no longer dispatches to string()")
    rd = cr.need_fn("lang::lex::BasicLexer::radix")
    letters = {ch for ch, b, d, sp, _o in lt.char_consts(rd)}
    ctx.check({"H", "h"} <= letters, "C05.c", "radix/H", rd.span, "radix() consumes H/h after &")
    st = cr.need_fn("lang::lex::BasicLexer::string")
    ctx.check('"' in {ch for ch, b, d, sp, _o in lt.char_consts(st)}, "C05.c", "string/quote",
              st.span, "string() ends at '\"'")
    td = lt.display(cr, lt.TOKEN)
    ctx.touch("<lang::token::Token as std::fmt::Display>::fmt")
    for v in ("LParen", "RParen", "Comma", "Colon", "Semicolon"):
        s = td.get(v)
        ctx.check(s in mn and mn[s] == (v, None), "C05.c", "Token/%s" % v, "",
                  "%r <-> Token::%s" % (s, v),
                  "Token::%s lists as %r which scans as %s" % (v, s, mn.get(s)))

    # ---- d: order
    keys = [s for s, _k, _i in kw]
    for s in keys:
        ctx.check(bool(s) and s.isascii() and s.isupper() and s.isalpha(), "C05.d",
                  "keyword/%s/shape" % s, "", "non-empty upper-case ASCII letters",
                  "keyword %r is empty or not upper-case ASCII letters (the scanner upper-cases "
                  "input and re-slices by the key's length)" % s)
    npairs = 0
    for i, a in enumerate(keys):
        for j, b in enumerate(keys):
            if a != b and b.startswith(a):
                npairs += 1
                ctx.check(j < i, "C05.d", "prefix-order/%s<%s" % (b, a), "",
                          "%s precedes its prefix %s" % (b, a),
                          "%s is listed before %s: the longer keyword can never match, so a "
                          "listed %s re-lexes as %s + identifier" % (a, b, b, a))
    ctx.floor("C05.d", "prefix pairs", npairs, 4)

    # ---- e: word separation
    ow = lt.bool_table(cr, "lang::token::Operator::is_word")
    ctx.touch("lang::token::Operator::is_word", "lang::token::Token::is_word")
    for v in ovars:
        s = od.get(v, "")
        ctx.check(ow.get(v) == s.isalpha(), "C05.e", "Operator::is_word/%s" % v, "",
                  "is_word(%s) = %s" % (v, ow.get(v)),
                  "Operator::%s lists as %r but is_word() is %s: the lister %s the blank the lexer "
                  "needs" % (v, s, ow.get(v), "omits" if s.isalpha() else "adds"))
    tw = lt.bool_table(cr, "lang::token::Token::is_word")
    for v in ("Word", "Ident", "Literal"):
        ctx.check(tw.get(v) is True, "C05.e", "Token::is_word/%s" % v, "", "true",
                  "Token::%s is not a word for separate_words(): two adjacent alphanumeric tokens "
                  "would be listed glued together" % v)
    tf = cr.need_fn("lang::token::Token::is_word")
    dt = tables.dispatch_table(tf, tables.arg_place(tf, 1))
    ctx.check("lang::token::Operator::is_word" in dt.get("Operator", ()), "C05.e",
              "Token::is_word/Operator-delegates", tf.span, "delegates to Operator::is_word")
    sw = cr.need_fn("lang::lex::BasicLexer::separate_words")
    ctx.check(bool(sw.calls_matching(r"Vec::<T, A>::insert$")) and
              any("Token::is_word" in n for c in sw.calls() for n in
                  [sw.describe(a) for a in c.args] + [c.name]), "C05.e",
              "separate_words/uses-is_word", sw.span, "separate_words keys on Token::is_word")

    # ---- f: SAVE / LOAD (bin crate)
    b = ctx.bin
    sv = b.need_fn("term::save")
    ld2 = b.need_fn("term::load2")
    ctx.touch(sv, ld2)
    ctx.check(bool(sv.calls_to("mach::listing::Listing::lines")), "C05.f", "save/iterates-lines",
              sv.span, "save() iterates Listing::lines()")
    disp_line = any("new_display" in (c.callee or "") and "lang::line::Line" in (c.callee_args or "")
                    for c in sv.calls())
    ctx.check(disp_line, "C05.f", "save/writes-Display", sv.span,
              "each line is written through Line's Display")
    ctx.check(bool(ld2.calls_to("mach::listing::Listing::load_str")), "C05.f",
              "load/uses-load_str", ld2.span, "load feeds each text line to Listing::load_str")
    ls = cr.need_fn("mach::listing::Listing::load_str")
    ctx.check(bool(ls.calls_to("lang::line::Line::new")), "C05.f", "load_str/Line::new", ls.span,
              "load_str lexes with Line::new (guard checked by C03.d)")

    # the two doors into the store measure a line the same way and against the same limit
    meas = {}
    for fn in ("mach::runtime::Runtime::enter", "mach::listing::Listing::load_str"):
        g = cr.need_fn(fn)
        ctx.touch(g)
        for _b, _i, st in g.assigns():
            rv = st["rv"]
            if rv["k"] == "binop" and rv["op"] in ("Gt", "Ge") and \
                    g.describe(rv["r"]) == "const:1024":
                d = g.describe(rv["l"])
                m = re.match(r"^call:([^()]+)\(", d)
                meas[fn] = (rv["op"], m.group(1) if m else d[:60])
    ctx.check(len(meas) == 2 and len(set(meas.values())) == 1, "C05.f", "line-limit/same-measure",
              "", "enter() and load_str() both reject `%s > 1024`"
              % (next(iter(meas.values()))[1] if meas else "?"),
              "the typed-line door and the LOAD door measure a line differently (%s): a line "
              "accepted by one is refused by the other, so a stored line can fail to LOAD again "
              "(multi-byte text: characters vs bytes)" % meas)

    # a token whose listed spelling is longer than a text that scans to it makes the listing of
    # a maximal accepted line longer than the limit both doors enforce
    mn = lt.minutia(cr)
    dispw = lt.display(cr, "lang::token::Word")
    longer = []
    for ch, row in sorted(mn.items()):
        if row and row[0] == "Word":
            nm = row[1][1] if isinstance(row[1], tuple) else row[1]
            d = dispw.get(nm)
            if isinstance(d, str) and len(d) > len(ch):
                longer.append((ch, d))
    ctx.check(not longer, "C05.f", "line-limit/listing-can-outgrow", "",
              "no single-character spelling lists as a longer word",
              "single-character spellings list as longer words (%s) and both doors apply the "
              "1024 limit to text: `10 ` + 340 x `?A:` (1023 bytes) is accepted, lists as 340 x "
              "`PRINT A:` (2723 bytes), and LOAD of the saved file answers LINE BUFFER OVERFLOW"
              % longer)

    # ---- g: separator
    lnd = cr.need_fn("<lang::line::Line as std::fmt::Display>::fmt")
    ctx.touch(lnd)
    xf = re.compile(r"<impl str>::(replace\w*|trim\w*|to_\w*case|split\w*|chars|char_indices|"
                    r"strip_\w+)$|String::(retain|remove|truncate|replace_range|pop|drain)$|"
                    r"Iterator::(filter|skip|take|rev|step_by|skip_while|take_while)$")
    odd = sorted({c.name for g in [lnd] + list(cr.closures_of(lnd.path)) for c in g.calls()
                  if xf.search(c.name) or xf.search(c.callee or "")})
    ctx.check(not odd, "C05.g", "Line::fmt/token-text-verbatim", lnd.span,
              "the listed text is the tokens' own text, concatenated and written unchanged",
              "Line's Display rewrites the joined token text (%s): characters inside a string "
              "literal or a remark (a TAB, say) list differently from what was entered, so the "
              "listing re-entered is another program" % odd)
    tpls = set()
    for bb in lnd.reachable():
        for s in tables.block_strings(lnd, bb):
            tpls.add(s)
    ctx.check("{} {}" in tpls, "C05.g", "Line::fmt/one-blank", lnd.span,
              "numbered lines list as \"{} {}\"",
              "Line lists with templates %s: not exactly one blank after the number" % sorted(tpls))
    lx = cr.need_fn("lang::lex::BasicLexer::lex")
    ctx.touch(lx)
    okb = False
    for cond_b in lx.reachable():
        for c in lx.conds_at(cond_b):
            if c[0] in ("eq",) and c[2] in (32, True) and ("const:' '" in str(c[1]) or c[2] == 32):
                okb = True
    sp = any(ch == " " for ch, _b, _d, _s, _o in lt.char_consts(lx))
    ctx.check(sp, "C05.g", "lex/strips-one-blank", lx.span,
              "lex() tests for one ' ' after the line number")


def rule_string_verbatim(ctx, cr, rid="C05.c"):
    """the string scanner copies every character up to the closing quote: one look per character"""
    f = cr.need_fn("lang::lex::BasicLexer::string")
    ctx.touch(f)
    sccs = [set(x) for x in f.sccs()]
    inloop = lambda c: any(c.bb in sc for sc in sccs)
    pops = [c for c in f.calls_matching(r"VecDeque::<T, A>::pop_front$") if inloop(c)]
    peeks = [c for c in f.calls_matching(r"VecDeque::<T, A>::(front|get|iter)$")]
    pushes = [c for c in f.calls_matching(r"String::push$") if inloop(c)]
    ok = len(pops) == 1 and len(pushes) == 1 and not peeks
    ctx.check(ok, rid, "string/verbatim-until-quote", f.span,
              "inside a literal each character is taken once and copied, the first quote ends it",
              "the string scanner looks ahead or takes more than one character per step (%d "
              "pop_front, %d look-ahead, %d push in the loop): some character sequence inside a "
              "literal (a doubled quote, an escape) is stored differently from how Literal's "
              "Display writes it back, so the listing of such a line is not a fixed point"
              % (len(pops), len(peeks), len(pushes)))


def rule_i(ctx, cr):
    """end-of-line trimming cannot leave an empty token behind"""
    f = cr.need_fn("lang::lex::BasicLexer::trim_end")
    ctx.touch(f)
    trims = f.calls_matching(r"<impl str>::trim_end$")
    pushes = [c for c in f.calls_matching(r"Vec::<T, A>::push$")
              if (f.stored_variant(f.value_of_operand(c.args[1])) or ("", ""))[1] == "Unknown"]
    ok = True
    if trims:
        guarded = bool(pushes) and all(
            any(cc[0] == "eq" and "is_empty" in str(cc[1]) and cc[2] is False for cc in f.conds_at(c.bb))
            for c in pushes)
        # or: a loop removes every trailing token that trims to nothing before the push
        sccs = [set(x) for x in f.sccs()]
        looped = any(any(c.bb in sc for c in f.calls_matching(r"Vec::<T, A>::pop$")) and
                     any(c.bb in sc for c in trims) and
                     any(c.bb in sc for c in f.calls_matching(r"<impl str>::is_empty$"))
                     for sc in sccs)
        # one removal is not enough (`5 <CR> <CR>`): the removal has to repeat
        ok = looped
    ctx.check(ok, "C05.i", "trim_end/no-empty-token", f.span,
              "a trailing token that trimming empties is dropped, not kept as an empty token",
              "trim_end() does not remove, in a loop, every trailing token that is blank or trims to "
              "nothing (CR, FF, VT, NBSP are scanned as unknown tokens): `10 PRINT 5<CR>` or "
              "`10 PRINT 5 <CR> <CR>` keeps such a token and is a SYNTAX ERROR, while its listing "
              "is accepted")


def rule_h(ctx, cr):
    from lib.mir import op_place
    from rules.progress import receiver_local
    n = 0
    for name in ("number", "radix", "alphabetic", "minutia", "string", "whitespace"):
        f = cr.need_fn("lang::lex::BasicLexer::" + name)
        pbs = f.calls_matching(r"VecDeque::<T, A>::push_front$")
        if not pbs:
            continue
        ctx.touch(f)
        for pi, pb in enumerate(pbs, 1):
            n += 1
            pushed = op_place(pb.args[1])
            pushed_root = None
            if pushed is not None:
                v = f.value_of_local(pushed["local"])
                pushed_root = v.get("local") if v.get("k") == "multi" else pushed["local"]
            # letters the pushed-back variable is compared with
            sites = [(ch, b, o) for ch, b, d, sp, o in lt.char_consts(f)
                     if ch.isalpha() and _root(f, o) == pushed_root]
            letters = sorted({ch for ch, _b, _o in sites})
            # edges taken only when the current character is one of those letters
            cut = set()
            for b in f.reachable():
                ec = f.edge_conds(b)
                for s2, conds in ec.items():
                    for c in conds:
                        src = f._cond_src.get(c)
                        if c[0] == "eq" and c[2] is True and src and src.get("k") == "rv" and \
                                src["rv"]["k"] == "binop" and src["rv"]["op"] == "Eq":
                            l, r = src["rv"]["l"], src["rv"]["r"]
                            cv = f.const_of_operand(r) or f.const_of_operand(l)
                            who = l if f.const_of_operand(r) is not None else r
                            if isinstance(cv, str) and cv in letters and _root(f, who) == pushed_root:
                                cut.add((b, s2))
            pops = f.calls_matching(r"VecDeque::<T, A>::pop_front$")
            heads = [c.bb for c in pops if f.can_reach(c.bb, pb.bb)]
            if not heads or not cut:
                ctx.ok("C05.h", "%s/push_front#%d" % (f.path, pi), pb.span,
                       "push-back is not tied to a letter test (nothing consumed conditionally)")
                continue
            head = heads[0]
            # blocks reachable from the loop head without crossing a cut edge, in one iteration
            plain = set()
            stack = [head]
            while stack:
                x = stack.pop()
                if x in plain:
                    continue
                plain.add(x)
                for y in f.succ(x):
                    if (x, y) in cut or y == head:
                        continue
                    stack.append(y)
            inloop = set()
            stack = [head]
            while stack:
                x = stack.pop()
                if x in inloop:
                    continue
                inloop.add(x)
                for y in f.succ(x):
                    if y != head:
                        stack.append(y)
            letter_only = {b for b in inloop if b not in plain and
                           (f.can_reach(b, pb.bb) or b == pb.bb)}
            # region that runs only on the push-back decision: blocks dominated by the first
            # block that (a) dominates the push-back call and (b) cannot reach the loop head
            # without passing the push-back... approximated by: dominates pb and every path from
            # it reaches pb
            rets = set(f.return_blocks())
            doms = [b for b in f.reachable() if f.dominates(b, pb.bb)]
            doms.sort(key=lambda b: len(f.dominators().get(b, ())))
            top = pb.bb
            for b in doms:
                rs = f.reach_set(b, avoid={pb.bb})
                if head not in rs and not (rs & rets):
                    top = b
                    break
            region = {b for b in f.reachable() if f.dominates(top, b)}
            modified = {}
            for b in letter_only - region:
                for st in f.blocks[b]["stmts"]:
                    if st["k"] == "assign" and not st["place"]["proj"]:
                        nm = f.name_of_local(st["place"]["local"])
                        if nm and len(f.defs().get(st["place"]["local"], [])) > 1:
                            modified.setdefault(nm, st["span"])
                c = f.call_at(b)
                if c is not None and c.args and re.search(r"::(push|push_str|pop|clear|insert)$",
                                                        c.callee or ""):
                    rl, _rs = receiver_local(f, c)
                    nm = f.name_of_local(rl) if rl is not None else None
                    if nm:
                        modified.setdefault(nm, c.span)
            restored = set()
            for b in region:
                for st in f.blocks[b]["stmts"]:
                    if st["k"] == "assign" and not st["place"]["proj"]:
                        nm = f.name_of_local(st["place"]["local"])
                        if nm:
                            restored.add(nm)
                c = f.call_at(b)
                if c is not None and c.args:
                    rl, _rs = receiver_local(f, c)
                    nm = f.name_of_local(rl) if rl is not None else None
                    if nm:
                        restored.add(nm)
            pushed_name = f.name_of_local(pushed_root) if pushed_root is not None else None
            for nm, sp in sorted(modified.items()):
                if nm == pushed_name:
                    continue
                ctx.check(nm in restored, "C05.h", "%s/push_front#%d/restores/%s" % (f.path, pi, nm),
                          sp, "`%s` is modified for the consumed letter and re-assigned on the "
                          "push-back path" % nm,
                          "`%s` is modified only because %s was consumed but is not restored when "
                          "that letter is pushed back: the literal is classified differently from "
                          "the same digits followed by a blank, which is what LIST writes"
                          % (nm, "/".join(letters)))
            if not modified:
                ctx.ok("C05.h", "%s/push_front#%d" % (f.path, pi), pb.span,
                       "no scanner variable is modified only for the pushed-back letter")
    ctx.floor("C05.h", "push-back sites", n, 2)


def _root(f, o):
    from lib.mir import op_place
    p = op_place(o)
    if p is None:
        return None
    v = f.value_of_local(p["local"])
    return v.get("local") if v.get("k") == "multi" else p["local"]
