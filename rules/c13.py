"""C13 - interrupt, STOP and END are transparent under CONT; slicing does not matter.

Decides: (a) non-interference of the instruction budget: the `iterations` argument only feeds
the dispatch loop's range, nothing else reads it or the loop counter; every handler runs after
pc was advanced; (b) every save of a continuation also saves the pc and only CONT reads it back;
the writers of cont / cont_pc / pc are the reviewed sets; (c) the value stack is cleared on a
stop only under the `cannot be continued` condition. Does not decide equality of total output
under interruption at every point."""
import json
import re

from lib.mir import op_place, rvalue_operands

RT = "mach::runtime::Runtime"
CONT_WRITERS = {"clear", "end", "enter_direct", "enter_indirect", "execute", "execute_loop",
                "interrupt", "cont"}
CONT_PC_WRITERS = {"end", "execute", "interrupt"}
PC_WRITERS = {"cont", "enter_direct", "execute", "execute_loop", "fn", "input", "next", "on",
              "return"}


def uses_of_local(f, l):
    out = []
    for b in f.reachable():
        for i, st in enumerate(f.blocks[b]["stmts"]):
            if st["k"] != "assign":
                continue
            rv = st["rv"]
            ops = list(rvalue_operands(rv))
            hit = any((op_place(o) or {}).get("local") == l for o in ops)
            if rv["k"] in ("ref", "discriminant") and rv["place"]["local"] == l:
                hit = True
            if hit:
                out.append(("stmt", b, st))
        t = f.term(b)
        if t["k"] == "call" and any((op_place(a) or {}).get("local") == l for a in t["args"]):
            out.append(("call", b, t))
        if t["k"] == "switch" and (op_place(t["discr"]) or {}).get("local") == l:
            out.append(("switch", b, t))
    return out


def forward_slice(f, l, depth=0, seen=None):
    """all (kind, bb, item) uses of l and of locals that copy/move it (not through calls)"""
    if seen is None:
        seen = set()
    if l in seen or depth > 8:
        return []
    seen.add(l)
    out = []
    for u in uses_of_local(f, l):
        out.append(u)
        if u[0] == "stmt" and u[2]["rv"]["k"] in ("use", "aggregate") and not u[2]["place"]["proj"]:
            out += forward_slice(f, u[2]["place"]["local"], depth + 1, seen)
    return out


def run(ctx):
    cr = ctx.lib
    ctx.rule("C13.a", "the forward def-use slice of `iterations` in execute() is exactly the call "
             "of execute_loop, and in execute_loop exactly the Range it bounds and that Range's "
             "iterator; the loop counter is never read; the pc increment dominates every handler "
             "call of the dispatch")
    ctx.rule("C13.b", "in interrupt, r#end and the error arm of execute, every path from the "
             "cont/state swap to the return stores cont_pc = pc; r#cont is the only reader of "
             "cont_pc and assigns pc from it on the path that swaps back; the writers of cont, "
             "cont_pc and pc are the reviewed sets")
    ctx.rule("C13.c", "Stack::clear on the value stack in interrupt and in the error arm is not "
             "unconditional: it is only reached under pc >= entry_address (or a full stack)")
    ctx.rule("C13.d", "the continuation is dropped (cont = Stopped) only where the reviewed table "
             "says: Runtime::end (which drops it when pc == entry_address, i.e. the program ran off "
             "its end) is called only from the End arm of the VM loop and from the commands that "
             "end a run (DELETE, RENUM, LOAD, SAVE); a direct line that fails to compile stops "
             "without touching cont")
    ctx.rule("C13.e", "STOP or END as the last statement of a THEN part is still followed by the jump "
             "over the ELSE part, so CONT continues after the IF and not inside its ELSE (C01.j)")
    from rules import c01 as _c01, common as _common
    _c01.rule_j(_common.Proxy(ctx, "C13.e"), cr)
    rule_a(ctx, cr)
    rule_b(ctx, cr)
    rule_c(ctx, cr)
    rule_d(ctx, cr)


def rule_a(ctx, cr):
    ex = cr.need_fn("mach::runtime::Runtime::execute")
    lp = cr.need_fn("mach::runtime::Runtime::execute_loop")
    ctx.touch(ex, lp)
    # the budget is the usize parameter (position 2 after self), whatever it is called
    li = [l for l in range(1, ex.arg_count + 1) if ex.local_ty(l) == "usize"]
    if ctx.check(len(li) == 1, "C13.a", "execute/iterations-arg", ex.span, "argument found"):
        us = forward_slice(ex, li[0])
        bad = [u for u in us if not (u[0] == "call" and u[2].get("callee") == lp.path)
               and not (u[0] == "stmt" and u[2]["rv"]["k"] == "use")]
        ctx.check(bool(us) and not bad, "C13.a", "execute/iterations-only-forwarded", ex.span,
                  "iterations is only passed on to execute_loop",
                  "execute() reads the instruction budget for something other than forwarding it "
                  "(%s): behaviour depends on the quantum" % [(u[0], u[1]) for u in bad][:3])
    ll = [l for l in range(1, lp.arg_count + 1) if lp.local_ty(l) == "usize"]
    if not ctx.check(len(ll) == 1, "C13.a", "execute_loop/iterations-arg", lp.span, "argument found"):
        return
    us = forward_slice(lp, ll[0])
    kinds = []
    bad = []
    for u in us:
        if u[0] == "stmt":
            rv = u[2]["rv"]
            if rv["k"] == "use":
                continue
            if rv["k"] == "aggregate" and rv.get("adt") == "std::ops::Range":
                kinds.append("Range")
                continue
            bad.append((u[0], u[1], rv["k"]))
        elif u[0] == "call":
            nm = u[2].get("callee") or ""
            if nm.endswith("IntoIterator::into_iter"):
                kinds.append("into_iter")
                continue
            bad.append((u[0], u[1], nm))
        else:
            bad.append((u[0], u[1], "switch"))
    ctx.check("Range" in kinds and not bad, "C13.a", "execute_loop/iterations-only-bounds-loop",
              lp.span, "iterations only bounds the dispatch loop (%s)" % kinds,
              "the instruction budget is read outside the loop bound (%s): program behaviour "
              "depends on how many instructions each execute() call is given" % bad[:3])
    # the loop counter: payload of Range::next is never used
    nx = [c for c in lp.calls() if (c.name or "").endswith("for std::ops::Range<A>>::next")]
    if ctx.check(len(nx) == 1, "C13.a", "execute_loop/one-range-loop", lp.span, "one dispatch loop"):
        dest = nx[0].dest["local"]
        payload_use = []
        for b in lp.reachable():
            for st in lp.blocks[b]["stmts"]:
                if st["k"] == "assign" and st["rv"]["k"] == "use":
                    p = op_place(st["rv"]["op"])
                    if p is not None and p["local"] == dest and any(
                            e["k"] == "field" for e in p["proj"]):
                        payload_use.append(b)
        ctx.check(not payload_use, "C13.a", "execute_loop/counter-unused", nx[0].span,
                  "the loop counter is never read",
                  "the dispatch loop reads its counter: behaviour can depend on the position "
                  "inside the quantum")
    # pc increment dominates the dispatch
    inc = [b for b, st, v in lp.field_stores("pc")
           if re.search(r"\.pc Add(WithOverflow)? const:1\)", lp.describe_value(v) or "")]
    if ctx.check(len(inc) == 1, "C13.a", "execute_loop/pc-increment", lp.span, "pc += 1 once per op"):
        handlers = [c for c in lp.calls() if c.name.startswith("mach::runtime::Runtime::")
                    and c.name != "mach::runtime::Runtime::execute_loop"]
        late = [c.name for c in handlers if not lp.dominates(inc[0], c.bb)]
        ctx.check(not late, "C13.a", "execute_loop/handlers-after-increment", lp.span,
                  "all %d handler calls run after pc was advanced (re-entry resumes at the next "
                  "opcode)" % len(handlers), "handlers %s can run before pc is advanced" % late)
    # nothing per-call: state written before the loop must not depend on program state other
    # than the error flag
    pre = [c.name for c in lp.calls() if not any(c.bb in s for s in map(set, lp.sccs()))
           and c.name.startswith("mach::")]
    ctx.notes.append("calls outside the dispatch loop in execute_loop: %s" % sorted(set(pre)))


def writers(cr, field):
    out = {}
    for p, f in cr.fns.items():
        st = [s for b, s, v in f.field_stores(field)
              if s["place"]["proj"][-1].get("adt") == RT]
        sw = [c for c in f.calls_to("std::mem::swap")
              if any(f.describe(a).endswith("." + field) for a in c.args)]
        if st or sw:
            out[p.rsplit("::", 1)[-1]] = (st, sw)
    out.pop("default", None)
    return out


def rule_b(ctx, cr):
    for field, want in (("cont", CONT_WRITERS), ("cont_pc", CONT_PC_WRITERS), ("pc", PC_WRITERS)):
        w = set(writers(cr, field))
        ctx.check(w == want, "C13.b", "writers/%s" % field, "",
                  "written by %s" % sorted(w),
                  "Runtime.%s is written by %s; reviewed set: %s (new: %s, gone: %s)"
                  % (field, sorted(w), sorted(want), sorted(w - want), sorted(want - w)))
    for name in ("interrupt", "end", "execute"):
        f = cr.need_fn("mach::runtime::Runtime::" + name)
        ctx.touch(f)
        sw = [c for c in f.calls_to("std::mem::swap")
              if {True} == {True for a in c.args if f.describe(a).endswith(".cont")}
              and any(f.describe(a).endswith(".state") for a in c.args)]
        # the same save written as `self.cont = mem::replace(&mut self.state, X)`
        for c in f.calls_to("std::mem::replace"):
            if f.describe(c.args[0]).endswith(".state") and \
                    (f.cplace(c.dest).endswith(".cont") or any(
                        "mem::replace" in (f.describe_value(v) or "")
                        for b, s_, v in f.field_stores("cont"))):
                sw.append(c)
        if not ctx.check(len(sw) == 1, "C13.b", "%s/save-swap" % name, f.span,
                         "one swap saving state into cont"):
            continue
        stores = {b for b, s, v in f.field_stores("cont_pc")
                  if f.describe_value(v).endswith(".pc")}
        rets = set(f.return_blocks())
        leak = bool(f.reach_set(sw[0].target, avoid=stores) & rets) if stores else True
        if sw[0].bb in stores:
            leak = False
        ctx.check(not leak, "C13.b", "%s/saves-pc-with-state" % name, sw[0].span,
                  "every path from the save to the return stores cont_pc = pc",
                  "%s saves the running state into cont but can return without saving pc: CONT "
                  "would resume at a stale address" % name)
    # what is saved is a state that can be continued: never the pending-interrupt marker itself
    from lib import typestate
    it = cr.need_fn("mach::runtime::Runtime::interrupt")
    # inductive form: assume cont != Interrupt on entry, require it on exit
    allv = {v["name"] for v in cr.adts["mach::runtime::State"]["variants"]}
    vm = typestate.VariantMay(it, "mach::runtime::State", "(*_1).state", ["(*_1).cont"],
                              assume={"(*_1).cont": allv - {"Interrupt", "RuntimeError"}})
    saved = set()
    for b in it.return_blocks():
        saved |= set(vm.at(b, "(*_1).cont") or ())
    left = set()
    for b in it.return_blocks():
        left |= set(vm.at(b) or ())
    ctx.check(left <= {"Interrupt", "RuntimeError"} and "Interrupt" in left, "C13.b",
              "interrupt/always-requests-break", it.span,
              "interrupt() returns with state == Interrupt whatever it found",
              "interrupt() can return with state in %s: for that state the break is swallowed - "
              "no BREAK is reported, nothing is saved for CONT and the program runs on (e.g. an "
              "interrupt during a LIST statement of a running program)" % sorted(left - {"Interrupt"}))
    ctx.check(not (saved & {"Interrupt", "RuntimeError"}), "C13.b",
              "interrupt/never-saves-interrupt", it.span,
              "after interrupt() the saved continuation is one of %s" % sorted(saved),
              "interrupt() can save a pending break (State::Interrupt / RuntimeError) as the "
              "continuation - a second interrupt() before execute() has reported the first: the "
              "running state is overwritten, CONT prints BREAK again and the program cannot be "
              "continued")
    c = cr.need_fn("mach::runtime::Runtime::cont")
    ctx.touch(c)
    # the trace cursor (last line whose [n] label was printed) belongs to the interrupted run too:
    # every direct line resets it, so CONT has to put it back
    ctx.check(bool(list(c.field_stores("tr"))), "C13.b", "cont/restores-trace-cursor", c.span,
              "CONT restores the trace cursor together with pc",
              "CONT restores pc but not Runtime.tr, which enter_direct cleared for the CONT line "
              "itself: with TRON the label of the line being continued is printed a second time "
              "(`10 TRON` / `20 A=1:A=2:PRINT A`, interrupt inside line 20, CONT prints [20] again)")
    readers = set()
    for p, f in cr.fns.items():
        for b, i, st in f.assigns():
            for o in rvalue_operands(st["rv"]):
                pl = op_place(o)
                if pl is not None and pl["proj"] and pl["proj"][-1].get("name") == "cont_pc":
                    readers.add(p.rsplit("::", 1)[-1])
    ctx.check(readers == {"cont"}, "C13.b", "cont_pc/readers", "", "only CONT reads cont_pc",
              "cont_pc is read by %s" % sorted(readers))
    sw = c.calls_to("std::mem::swap")
    st = [b for b, s, v in c.field_stores("pc") if c.describe_value(v).endswith(".cont_pc")]
    ok = len(sw) == 1 and len(st) == 1 and (c.dominates(sw[0].bb, st[0]) or
                                           c.dominates(st[0], sw[0].bb))
    ctx.check(ok, "C13.b", "cont/restores-pc-with-state", c.span,
              "CONT swaps the saved state back and restores pc on the same path")
    codes = {x for _b, x, _s in c.error_codes()}
    ctx.check(codes == {"CantContinue"}, "C13.b", "cont/cant-continue", c.span,
              "nothing to continue -> CAN'T CONTINUE")


def rule_c(ctx, cr):
    it = cr.need_fn("mach::runtime::Runtime::interrupt")
    ctx.touch(it)
    cl = [c for c in it.calls_to("mach::stack::Stack<T>::clear")
          if it.describe(c.args[0]).endswith(".stack")]
    ok = False
    for c in cl:
        for op, l, r, truth in it.cmp_conds_at(c.bb):
            if op == "Ge" and truth and it.describe(l).endswith(".pc") and \
                    it.describe(r).endswith(".entry_address"):
                ok = True
    ctx.check(len(cl) == 1 and ok, "C13.c", "interrupt/clear-only-in-direct-mode", it.span,
              "an interrupt inside the program keeps the stack (frames needed by CONT)",
              "interrupt() clears the value stack unconditionally: CONT after BREAK inside a "
              "FOR loop or subroutine loses its frames")
    ex = cr.need_fn("mach::runtime::Runtime::execute")
    cl = [c for c in ex.calls_to("mach::stack::Stack<T>::clear")
          if ex.describe(c.args[0]).endswith(".stack")]
    sw = [c for c in ex.calls_to("std::mem::swap")
          if any(ex.describe(a).endswith(".cont") for a in c.args)]
    ok2 = False
    if len(cl) == 1 and len(sw) == 1:
        rets = set(ex.return_blocks())
        ok2 = bool(ex.reach_set(sw[0].target, avoid={cl[0].bb}) & rets)
        guards = [c.name.rsplit("::", 1)[-1] for c in ex.calls()
                  if c.name == "mach::stack::Stack<T>::is_full"]
        ok2 = ok2 and bool(guards)
    cmpops = sorted({st["rv"]["op"] for b, i, st in ex.assigns()
                     if st["rv"]["k"] == "binop" and ex.describe(st["rv"]["l"]).endswith(".pc")
                     and ex.describe(st["rv"]["r"]).endswith(".entry_address")})
    ctx.check(cmpops == ["Ge"], "C13.c", "execute/error-arm-direct-mode-test", ex.span,
              "`pc >= entry_address` decides that the failing statement was a direct one",
              "execute() compares pc with entry_address by %s (expected >=): an error raised by "
              "the first instruction of a direct line is taken for a program error (stack and "
              "continuation kept), or a program error at the boundary for a direct one" % cmpops)
    if len(cl) == 1:
        both = [str(c[1])[:80] for c in ex.conds_at(cl[0].bb)
                if c[0] == "eq" and c[2] is True and
                ("Stack<T>::is_full" in str(c[1]) or
                 re.search(r"\.pc Ge .*\.entry_address\)$", str(c[1])))]
        ctx.check(not both, "C13.c", "execute/error-arm-clear-reasons-are-alternatives", cl[0].span,
                  "a direct-mode error clears the stack whether or not it is full, and a full "
                  "stack is cleared wherever the error was raised",
                  "the stack is cleared only when %s hold together: an error of a direct statement "
                  "leaves its operands on the stack and keeps a continuation into the direct "
                  "line, or OUT OF MEMORY inside the program leaves the stack full" % both)
    ctx.check(ok2, "C13.c", "execute/error-arm-clear-is-conditional", ex.span,
              "an error inside the program keeps the stack unless it is full",
              "the error arm clears the value stack on every path: CONT after STOP/END/error "
              "loses its frames")


END_CALLERS = {"mach::runtime::Runtime::execute_loop", "mach::runtime::Runtime::delete",
               "mach::runtime::Runtime::renum", "mach::runtime::Runtime::load",
               "mach::runtime::Runtime::loadrun", "mach::runtime::Runtime::save"}


def rule_d(ctx, cr):
    e = cr.need_fn("mach::runtime::Runtime::end")
    ctx.touch(e)
    callers = set(cr.callers_of(e.path))
    ctx.check(callers <= END_CALLERS, "C13.d", "end/callers", e.span,
              "r#end is called by %s" % sorted(c.rsplit("::", 1)[1] for c in callers),
              "r#end is now also called by %s: end() discards the saved continuation whenever "
              "pc == entry_address, which outside the VM loop is the case before anything ran "
              "(a failed direct line after a break would make CONT answer CAN'T CONTINUE)"
              % sorted(callers - END_CALLERS))
    # the DATA read pointer belongs to the interrupted run: entering direct lines must not move it
    w = set()
    for p_, g in cr.fns.items():
        for b, st, v in g.field_stores("data_pos"):
            if st["place"]["proj"][-1].get("adt") == "mach::link::Link":
                w.add(p_.rsplit("::", 1)[1])
    ctx.check(w <= {"clear", "restore_data", "read_data", "default", "new"}, "C13.d",
              "data_pos/writers", "", "Link.data_pos is written by %s" % sorted(w),
              "Link.data_pos is now also written by %s: linking a direct line (PRINT, CONT itself) "
              "during a break rewinds the DATA pointer of the interrupted program, so READ after "
              "CONT starts over from the first DATA item" % sorted(w - {"clear", "restore_data",
                                                                         "read_data"}))
    ex = cr.need_fn("mach::runtime::Runtime::execute")
    ctx.touch(ex)
    # the direct-errors stop: state = Stopped and no store to cont on that path
    evd = [b for b, i, s in ex.aggregates("mach::runtime::Event", "Errors")
           if "direct_errors" in ex.describe(s["rv"]["ops"][0])]
    cont_st = [b for b, s, v in ex.field_stores("cont")]
    ok = bool(evd) and all(not ex.dominates(cb, b) and not (ex.can_reach(cb, b) and
                                                             ex.dominates(_top(ex, b), cb))
                           for b in evd for cb in cont_st)
    ctx.check(ok, "C13.d", "execute/direct-errors-keep-cont", ex.span,
              "reporting a direct line's compile errors does not write cont")


def _top(ex, b):
    """entry of the `direct_errors not empty` branch that contains block b"""
    best = b
    for d in ex.dominators().get(b, ()):
        if any(c[0] == "eq" and "is_empty" in str(c[1]) and "direct_errors" in str(c[1])
               for c in ex.conds_at(d)):
            if ex.dominates(d, best):
                best = d
    return best
