"""Loop progress analysis (DESIGN C03.b/c): every cycle of every CFG must contain more
progress events than regress events. Decided exactly per SCC by negative-cycle detection."""
import re

from lib.mir import Call, loc, op_place

# (callee regex, kind). kinds: 'iter' needs a loop-invariant receiver; 'pop' consumes from a
# container; 'parse' consumes a token (parser primitives and their must-call closure).
ITER_NEXT = re.compile(r"^std::iter::(Iterator::next|DoubleEndedIterator::next_back)$")
POPS = re.compile(r"^(std::vec::Vec::<T, A>::pop|std::collections::VecDeque::<T, A>::pop_front|"
                  r"mach::stack::Stack<T>::(pop|pop_2|pop_n))$")
PUSHES = re.compile(r"^(std::vec::Vec::<T, A>::(push|insert|append|extend)|"
                    r"std::collections::VecDeque::<T, A>::(push_back|push_front|insert)|"
                    r"mach::stack::Stack<T>::(push|append))$")
PUSH_BACK = re.compile(r"^std::collections::VecDeque::<T, A>::push_front$")
PARSE_PRIMS = {"lang::parse::BasicParser<'a>::next", "lang::parse::BasicParser<'a>::maybe",
               "lang::parse::BasicParser<'a>::expect"}


def receiver_local(f, call):
    """root local and canonical place of the object a method is invoked on (through any
    chain of &mut / & / copy temporaries)"""
    if not call.args:
        return None, None
    p = op_place(call.args[0])
    if p is None:
        return None, None
    deref = {"local": p["local"], "proj": list(p["proj"]) + [{"k": "deref"}]}
    s, _deps = f.canon_place(deref)
    m = re.search(r"_(\d+)", s)
    return (int(m.group(1)) if m else None), s


def def_blocks(f, local):
    out = set()
    for d in f.defs().get(local, []):
        if d[0] in ("stmt", "partial", "call"):
            out.add(d[1])
    return out


class LoopSpec:
    """extra, function-specific progress events: list of (kind, arg)
       ('assign_from_index', var)  : user variable re-assigned from a str Index::index result
       ('incr', var)               : user variable incremented by a positive constant"""
    def __init__(self, events):
        self.events = events


SPECIAL = {
    # (the variable is whichever local the statement updates from itself: no names)
    "lang::lex::BasicLexer::lex": LoopSpec([("incr", None)]),
    "lang::token::Token::scan_alphabetic": LoopSpec([("assign_from_index", None)]),
    "mach::function::Function::val": LoopSpec([("assign_from_index", None)]),
}


def events(f, b, scc, advancing, spec):
    """list of (measure, delta) for block b. measures are strings:
       iter:<recv>  pop:<recv>  tokens  special:<var>"""
    ev = []
    sccs = set(scc)
    c = f.call_at(b)
    if c is not None:
        callee = c.callee or ""
        name = c.name
        if ITER_NEXT.match(callee):
            rl, rs = receiver_local(f, c)
            # progress only if the iterator object is created outside the loop
            if rl is not None and (not (def_blocks(f, rl) & sccs) or rl <= f.arg_count):
                ev.append(("iter:%s" % rs, 1))
        elif POPS.match(callee):
            _rl, rs = receiver_local(f, c)
            if _result_checked_exits(f, c, sccs) or _nonempty_before(f, c, sccs):
                ev.append(("pop:%s" % rs, 1))
        elif PUSHES.match(callee):
            _rl, rs = receiver_local(f, c)
            ev.append(("pop:%s" % rs, -1))
        elif name in advancing or callee in advancing:
            ev.append(("tokens", 1))
        elif callee == "std::option::Option::<T>::take":
            _rl, rs = receiver_local(f, c)
            if rs and rs.endswith(".peeked"):
                ev.append(("tokens", 1))
    if spec is not None:
        for kind, var in spec.events:
            for st in f.blocks[b]["stmts"]:
                if st["k"] != "assign" or st["place"]["proj"]:
                    continue
                loc = st["place"]["local"]
                if not f.name_of_local(loc):
                    continue            # compiler temporaries are not loop variables
                rv = st["rv"]
                if kind == "incr" and _is_increment(f, rv, loc):
                    ev.append(("special:_%d" % loc, 1))
                elif kind == "assign_from_index" and _is_reslice(f, rv, loc):
                    ev.append(("special:_%d" % loc, 1))
    return ev


def _sub_sccs(f, blocks):
    """cyclic SCCs of the subgraph induced by `blocks`"""
    blocks = set(blocks)
    index, low, on, st, out, cnt = {}, {}, set(), [], [], [0]

    def succ(v):
        return [x for x in f.succ(v) if x in blocks]
    for root in sorted(blocks):
        if root in index:
            continue
        work = [(root, 0)]
        while work:
            v, i = work.pop()
            if i == 0:
                index[v] = low[v] = cnt[0]
                cnt[0] += 1
                st.append(v)
                on.add(v)
            rec = False
            ss = succ(v)
            for j in range(i, len(ss)):
                w = ss[j]
                if w not in index:
                    work.append((v, j + 1))
                    work.append((w, 0))
                    rec = True
                    break
                elif w in on:
                    low[v] = min(low[v], index[w])
            if rec:
                continue
            if low[v] == index[v]:
                comp = []
                while True:
                    w = st.pop()
                    on.discard(w)
                    comp.append(w)
                    if w == v:
                        break
                if len(comp) > 1 or v in succ(v):
                    out.append(comp)
            if work:
                u = work[-1][0]
                low[u] = min(low[u], low[v])
    return out


def scc_progress(f, scc, advancing, spec, depth=0):
    """(ok, witness). Lexicographic argument: the SCC is fine if some measure m either
    (a) has no regress event in the SCC and, after deleting the blocks that make m-progress,
        every remaining sub-loop is fine (recursively), or
    (b) has regress events but every cycle still has strictly more m-progress than m-regress
        (Bellman-Ford negative-cycle detection)."""
    evs = {b: events(f, b, scc, advancing, spec) for b in scc}
    measures = sorted({m for es in evs.values() for m, d in es if d > 0})
    s = set(scc)
    best = None
    for m in measures:
        w = {b: sum(d for mm, d in evs[b] if mm == m) for b in scc}
        if any(x < 0 for x in w.values()):
            edges = [(u, v, w[u]) for u in scc for v in f.succ(u) if v in s]
            cyc = negative_cycle(scc, edges)
            if cyc is None:
                return True, "measure %s outweighs its push-backs on every cycle" % m
            best = best or (m, cyc, w)
            continue
        rest = [b for b in scc if w[b] <= 0]
        subs = _sub_sccs(f, rest)
        if depth < 4 and all(scc_progress(f, sub, advancing, spec, depth + 1)[0] for sub in subs):
            return True, "measure %s decreases on every cycle (%d inner loop(s) discharged " \
                         "recursively)" % (m, len(subs))
        if best is None:
            bad = [sub for sub in subs
                   if not scc_progress(f, sub, advancing, spec, depth + 1)[0]]
            best = (m, bad[0] if bad else scc, w)
    if best is None:
        return False, ("no progress event at all", list(scc), {})
    return False, best


def _is_increment(f, rv, var):
    """rv is `var + positive constant` (through the AddWithOverflow tuple's .0)"""
    if rv["k"] == "binop":            # overflow checks off: `var = var + c` directly
        b = rv
    else:
        if rv["k"] != "use":
            return False
        p = op_place(rv["op"])
        if p is None:
            return False
        v = f.value_of_local(p["local"])
        if v.get("k") != "rv" or v["rv"]["k"] != "binop":
            return False
        b = v["rv"]
    if b["op"] not in ("Add", "AddWithOverflow", "AddUnchecked"):
        return False
    rd = f.describe(b["r"])
    m = re.match(r"^const:([1-9]\d*)$", rd)
    lp = op_place(b["l"])
    return lp is not None and not lp["proj"] and lp["local"] == var and bool(m)


def _is_reslice(f, rv, var):
    """rv is a reference into the result of `<str as Index>::index(var, range)`: var shrinks
    (range start > 0 or end < len is the caller's obligation, see SPECIAL reasons)"""
    if rv["k"] == "use":
        p = op_place(rv["op"])
    elif rv["k"] == "ref":
        p = rv["place"]
    else:
        return False
    if p is None:
        return False
    deref = {"local": p["local"], "proj": list(p["proj"]) + [{"k": "deref"}]}
    s, _ = f.canon_place(deref)
    m = re.search(r"_(\d+)", s)
    if not m:
        return False
    v = f.value_of_local(int(m.group(1)))
    return v.get("k") == "call" and _index_on_var(f, v["call"], var)


def _index_on_var(f, call, var):
    if not (call.callee or "").endswith("ops::Index::index"):
        return False
    if call.self_ty != "str":
        return False
    rl, _rs = receiver_local(f, call)
    return rl is not None and rl == var


def _result_checked_exits(f, call, sccs):
    """the call's result is switched on and the None/Err edge leaves the SCC"""
    if call.target is None:
        return False
    dest = f.cplace(call.dest)
    tb = call.target
    # follow straight-line blocks to the first switch on discriminant(dest) or a `?` branch
    seen = set()
    while tb is not None and tb not in seen:
        seen.add(tb)
        t = f.term(tb)
        if t["k"] == "switch":
            ec = f.edge_conds(tb)
            for s, conds in ec.items():
                for c in conds:
                    if c[0] == "variant" and c[1] == dest and c[3] in ("None", "Err"):
                        return s not in sccs or _leads_out(f, s, sccs)
                    if c[0] == "variant" and c[1].startswith("_") and c[3] in ("Break",):
                        # `?`: branch() result; Break leaves via from_residual + return
                        return s not in sccs or _leads_out(f, s, sccs)
            return False
        if t["k"] == "call":
            c2 = Call(f, tb, t)
            if (c2.callee or "").endswith("Try::branch"):
                tb = t["target"]
                dest = f.cplace(c2.dest)
                continue
            return False
        succ = f.succ(tb)
        tb = succ[0] if len(succ) == 1 else None
    return False


def _leads_out(f, b, sccs):
    """every path from b leaves the SCC without re-entering it"""
    seen = set()
    stack = [b]
    while stack:
        n = stack.pop()
        if n in seen:
            continue
        seen.add(n)
        if n in sccs:
            return False
        stack.extend(f.succ(n))
    return True


def _nonempty_before(f, call, sccs):
    """ignored-result pop_front: the deque was observed non-empty (front() is Some) on every
    in-loop edge reaching the call, with no pop in between (kills are block-granular)."""
    b = call.bb
    ok_any = False
    for p in f.pred(b):
        if p not in sccs:
            continue
        ok_any = True
        conds = set(f.conds_at(p)) | set(f.edge_conds(p).get(b, ()))
        if not any(c[0] == "variant" and c[3] == "Some" and
                   ("front(" in _src(f, c[1]) or "::last(" in _src(f, c[1]))
                   for c in conds):
            return False
    return ok_any


def _src(f, place_s):
    m = re.match(r"^\(?_(\d+)", place_s)
    if not m:
        return ""
    v = f.value_of_local(int(m.group(1)))
    return f.describe_value(v)


def negative_cycle(nodes, edges):
    """edges: list of (u, v, w). Returns a list of nodes on a cycle with sum(w) <= 0 or None.
    Uses w' = w*(n+1) - 1 and Bellman-Ford."""
    n = len(nodes)
    dist = {u: 0 for u in nodes}
    pred = {u: None for u in nodes}
    we = [(u, v, w * (n + 1) - 1) for u, v, w in edges]
    x = None
    for _ in range(n + 1):
        x = None
        for u, v, w in we:
            if dist[u] + w < dist[v]:
                dist[v] = dist[u] + w
                pred[v] = u
                x = v
        if x is None:
            return None
    for _ in range(n):
        x = pred[x]
    cyc = [x]
    y = pred[x]
    while y != x and y is not None and len(cyc) <= n:
        cyc.append(y)
        y = pred[y]
    return list(reversed(cyc))


def advancing_functions(crate):
    """parser functions every normal-return path of which passes a consuming primitive
    (must-call closure over lang::parse / lang::ast::{Expression,Statement})"""
    adv = set(PARSE_PRIMS)
    cands = [f for p, f in crate.fns.items()
             if p.startswith("lang::parse::BasicParser<'a>::") or
             p.startswith("lang::ast::Expression::") or p.startswith("lang::ast::Statement::")]
    changed = True
    while changed:
        changed = False
        for f in cands:
            if f.path in adv or f.path == "lang::parse::BasicParser<'a>::peek":
                continue
            if _every_ok_path_calls(f, adv):
                adv.add(f.path)
                changed = True
    return adv


def _every_ok_path_calls(f, adv):
    hit = {b for b in f.reachable()
           if (f.call_at(b) is not None and (f.call_at(b).name in adv
                                             or f.call_at(b).callee in adv))}
    if not hit:
        return False
    err_ret = _err_blocks(f)
    # is there a path entry -> return avoiding `hit` that is not an Err construction path?
    seen = set()
    stack = [0]
    while stack:
        n = stack.pop()
        if n in seen or n in hit:
            continue
        seen.add(n)
        if f.term(n)["k"] == "return":
            return False
        for s in f.succ(n):
            if s in err_ret:
                continue
            stack.append(s)
    return True


def _err_blocks(f):
    """blocks that construct Result::Err / call from_residual (error exits)"""
    out = set()
    for b in f.reachable():
        c = f.call_at(b)
        if c is not None and (c.callee or "").endswith("FromResidual::from_residual"):
            out.add(b)
        for st in f.blocks[b]["stmts"]:
            if st["k"] == "assign" and st["rv"]["k"] == "aggregate" and \
                    st["rv"].get("variant") == "Err" and st["place"]["local"] == 0:
                out.add(b)
    return out


def check_loops(ctx, rule, crate, fns, advancing):
    n_loops = 0
    for f in fns:
        sccs = f.sccs()
        if not sccs:
            continue
        ctx.touch(f)
        spec = SPECIAL.get(f.path)
        for k, scc in enumerate(sorted(sccs, key=lambda s: min(s)), 1):
            n_loops += 1
            ok, wit = scc_progress(f, scc, advancing, spec)
            lines_all = sorted({f.term(b)["span"]["line"] for b in scc
                                if "span" in f.term(b) and f.term(b)["span"]["file"] == f.file})
            where = {"file": f.file, "line": lines_all[0] if lines_all else f.line}
            key = "%s/loop#%d" % (f.path, k)
            if ok:
                ctx.ok(rule, key, where, "%d-block loop: %s" % (len(scc), wit))
            else:
                m, cyc, w = wit
                lines = sorted({f.term(b)["span"]["line"] for b in cyc if "span" in f.term(b)
                                and f.term(b)["span"]["file"] == f.file})
                evs = sorted({(f.term(b)["span"]["line"], w.get(b, 0)) for b in cyc
                              if w.get(b, 0) != 0})
                ctx.bad(rule, key, where,
                        "a cycle through source lines %s makes no net progress (measure %s, "
                        "events on it: %s): the loop can run forever on some input"
                        % (lines[:24], m, evs))
    return n_loops


def min_net(f):
    """minimum over entry->return paths of (pop_front - push_front) on the input deque, assuming
    the deque is non-empty at entry (BasicLexer::next only dispatches after front() is Some);
    None if the function has a non-positive cycle."""
    nodes = list(f.reachable())
    pops = [b for b in nodes if f.call_at(b) is not None
            and (f.call_at(b).callee or "").endswith("VecDeque::<T, A>::pop_front")]
    w = {}
    for b in nodes:
        c = f.call_at(b)
        w[b] = 0
        if c is None:
            continue
        callee = c.callee or ""
        if callee.endswith("VecDeque::<T, A>::pop_front"):
            first = not any(p != b and f.can_reach(p, b) for p in pops)
            in_loop = f.can_reach(b, b)
            scc_b = next((set(sc) for sc in f.sccs() if b in sc), {b})
            if first and not in_loop:
                w[b] = 1          # deque non-empty at entry
            elif first and _nonempty_before(f, c, scc_b):
                w[b] = 1          # non-empty at entry, and front() was Some on every back edge
            elif _result_checked_exits(f, c, {b}) or _result_is_matched(f, c):
                w[b] = 1          # counted on the Some edge; the None edge ends the scan
            elif _fresh_front_some(f, c, pops):
                w[b] = 1
        elif PUSH_BACK.match(callee):
            w[b] = -1
    INF = 10 ** 9
    dist = {b: INF for b in nodes}
    dist[0] = 0
    for _ in range(len(nodes) * 3 + 3):
        ch = False
        for u in nodes:
            if dist[u] == INF:
                continue
            for v in f.succ(u):
                if dist[u] + w[u] < dist[v]:
                    dist[v] = dist[u] + w[u]
                    ch = True
        if not ch:
            break
    else:
        return None
    rets = [dist[b] + w[b] for b in f.return_blocks() if dist[b] < INF]
    return min(rets) if rets else None


def _result_is_matched(f, call):
    dest = f.cplace(call.dest)
    for b in f.reachable():
        for c in f.conds_at(b):
            if c[0] == "variant" and c[1] == dest and c[3] in ("Some", "None"):
                return True
    return False


def _fresh_front_some(f, call, pops):
    """a front()==Some fact holds at the call and no pop lies between that front() and it"""
    for c in f.conds_at(call.bb):
        if c[0] == "variant" and c[3] == "Some" and "front(" in _src(f, c[1]):
            m = re.match(r"^\(?_(\d+)", c[1])
            fb = def_blocks(f, int(m.group(1))) if m else set()
            if fb and not any(p != call.bb and any(f.can_reach(x, p) for x in fb)
                              and f.can_reach(p, call.bb) for p in pops):
                return True
    return False
