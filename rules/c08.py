"""C08 - 16-bit Integer arithmetic is always checked.

Decides (complete for the "never wraps / never crashes / never truncates" half): there is no
unchecked arithmetic construct on i16 anywhere in the evaluator, every checked_* result is
unpacked into Integer-or-OVERFLOW, division separates DIVISION BY ZERO from MIN/-1, and every
float->integer / wide->i16 cast sits under both range guards. Does not decide numeric results."""
from lib.mir import loc, op_place
import re

from rules import common

LOCAL1 = re.compile(r"_(\d+)")

ARITH = {"Add", "Sub", "Mul", "Div", "Rem", "Shl", "Shr",
         "AddUnchecked", "SubUnchecked", "MulUnchecked", "ShlUnchecked", "ShrUnchecked",
         "AddWithOverflow", "SubWithOverflow", "MulWithOverflow"}
# inherent i16 methods that are exact or checked
I16_OK = {"checked_add", "checked_sub", "checked_mul", "checked_pow", "checked_div",
          "checked_rem", "checked_neg", "checked_abs", "is_negative", "is_positive",
          "from_str_radix", "min_value", "max_value", "signum", "eq", "ne", "lt", "le", "gt",
          "ge", "cmp", "partial_cmp", "clone", "to_string", "fmt", "hash", "default",
          "count_ones", "leading_zeros", "trailing_zeros", "unsigned_abs", "try_from", "from",
          "into", "try_into"}
OPS_TRAITS = ("std::ops::Add::", "std::ops::Sub::", "std::ops::Mul::", "std::ops::Div::",
              "std::ops::Rem::", "std::ops::Neg::", "std::ops::Shl::", "std::ops::Shr::",
              "std::ops::AddAssign::", "std::ops::SubAssign::", "std::ops::MulAssign::",
              "std::ops::DivAssign::", "std::ops::RemAssign::")
I16_TYS = ("i16", "&i16", "&mut i16")

# unchecked constructs that are provably in range because of a guard the rule re-verifies.
# key -> (needle that must appear in a must-hold condition at the site, reason)
GUARDED = {
    "mach::function::Function::tab/Neg#1":
        ("RangeInclusive::<Idx>::contains(",
         "tab is in -255..=255 (the Overflow return on !contains dominates), so -tab cannot be "
         "-(-32768)"),
}


def scope(ctx):
    if ctx.tier == "thorough":
        return sorted(ctx.lib.fns.values(), key=lambda f: f.path)
    return sorted([f for f in ctx.lib.fns.values()
                   if f.path.startswith("mach::") or f.path.startswith("<mach::")
                   or " as std::convert::TryFrom<mach::val::Val>>" in f.path
                   or "mach::val::Val as " in f.path],
                  key=lambda f: f.path)


def run(ctx):
    ctx.rule("C08.a", "no Add/Sub/Mul/Div/Rem/Shl/Shr/Neg MIR operation (plain, unchecked or "
             "WithOverflow) with an i16 operand, no std::ops trait call on i16, and no inherent "
             "i16 method outside the checked/exact set, in the evaluator (quick: mach::*; "
             "thorough: whole crate). A guarded exception must still show its guard.")
    ctx.rule("C08.b", "every i16::checked_* result is switched on: the Some payload flows "
             "unchanged into Val::Integer, the None arm constructs OVERFLOW; for checked_div / "
             "checked_rem every DIVISION BY ZERO construction is under `divisor == 0` and the "
             "MIN/-1 case (None with divisor != 0) yields OVERFLOW for \\ and 0 for MOD")
    ctx.rule("C08.d", "each arithmetic entry point computes its Integer x Integer (or Integer) cell "
             "with its own exact idiom on the unmodified operands: the matching i16::checked_* "
             "called on the matched payloads, or the operation carried out in a wider integer "
             "type followed by a checked narrowing; routing through another operator's checked "
             "primitive (e.g. a - b as a + (-b)) is rejected because the intermediate can "
             "overflow when the exact result fits")
    ctx.rule("C08.c", "every FloatToInt cast, and every int cast into i16 from a wider type, in "
             "the crate is dominated by a lower and an upper range test of the same source value "
             "against the target type's bounds, and the function can construct OVERFLOW")
    ctx.rule("C08.e", "a floating point value is range-tested and converted at its own precision: "
             "the source of every float->integer cast has no narrowing float conversion in its "
             "def-use back-slice (no f64->f32 cast, no <f32 as TryFrom<Val>>::try_from), so a "
             "Double near a limit is not rounded onto it before the test")
    fns = scope(ctx)
    ctx.touch(*fns)
    n_e = 0
    for f in fns:
        if f.path.startswith("lang::") or f.path.startswith("<lang::"):
            continue
        n_e += rule_e(ctx, f)
    ctx.floor("C08.e", "float->integer casts", n_e, 4)
    n_sites = 0
    for f in fns:
        n_sites += rule_a(ctx, f)
    ctx.floor("C08.a", "i16 operation sites examined", n_sites, 20)
    n_b = 0
    for f in fns:
        n_b += rule_b(ctx, f)
    ctx.floor("C08.b", "checked_* call sites", n_b, 6)
    n_c = 0
    lang_fns = [] if ctx.tier == "thorough" else sorted(
        (g for p, g in ctx.lib.fns.items() if p.startswith("lang::") or p.startswith("<lang::")),
        key=lambda g: g.path)
    for f in list(fns) + lang_fns:
        if f.path == "lang::line::RenumVisitor<'a>::line":
            continue  # its f64 -> u16 cast has its own bounds (0..=65529): C14.c
        n_c += rule_c(ctx, f)
    # 9 on the pinned tree; the per-type arms of one conversion can be merged into one cast
    # without changing behaviour, so the floor is one cast per conversion impl
    ctx.floor("C08.c", "range-guarded casts", n_c, 5)
    rule_d(ctx)
    common.selftest(ctx, "C08.a", ["neg_i16", "add_i16", "abs_i16", "wrapping_i16"], rule_a)
    common.selftest(ctx, "C08.c", ["float_cast"], rule_c)
    if ctx.tier == "thorough" and ctx.cfg == "dev":
        rel_config(ctx)


def rule_a(ctx, f):
    n = 0
    ordn = {}

    def key(tag):
        ordn[tag] = ordn.get(tag, 0) + 1
        return "%s/%s#%d" % (f.path, tag, ordn[tag])

    for b, i, st in f.assigns():
        rv = st["rv"]
        if rv["k"] == "binop" and (rv["lty"] in I16_TYS or rv["rty"] in I16_TYS):
            n += 1
            if rv["op"] in ARITH:
                k = key(rv["op"])
                if not guarded(ctx, f, b, k, st["span"]):
                    ctx.bad("C08.a", k, st["span"],
                            "unchecked `%s` on i16 (wraps in release, panics in debug)" % rv["op"])
            else:
                ctx.ok("C08.a", key(rv["op"]), st["span"], "exact i16 operation", trivial=True)
        elif rv["k"] == "unop" and rv["ty"] in I16_TYS:
            n += 1
            if rv["op"] == "Neg":
                k = key("Neg")
                if not guarded(ctx, f, b, k, st["span"]):
                    ctx.bad("C08.a", k, st["span"],
                            "unchecked unary minus on i16: -(-32768) overflows (panic in debug, "
                            "wraps to -32768 in release)")
            else:
                ctx.ok("C08.a", key(rv["op"]), st["span"], "exact i16 operation", trivial=True)
    for c in f.calls():
        callee = c.callee or ""
        meth = callee.rsplit("::", 1)[-1]
        if callee.startswith("core::num::<impl i16>::"):
            n += 1
            k = key("call:" + meth)
            ctx.check(meth in I16_OK, "C08.a", k, c.span,
                      "i16::%s is checked/exact" % meth,
                      "i16::%s is not in the checked/exact set (may wrap, saturate or panic)"
                      % meth)
        elif callee.startswith(OPS_TRAITS) and c.self_ty in I16_TYS:
            n += 1
            ctx.bad("C08.a", key("opcall:" + meth), c.span,
                    "operator trait call %s on %s is unchecked i16 arithmetic" % (callee, c.self_ty))
        elif c.callee_args and ("::sum::<i16>" in c.callee_args
                                or "::product::<i16>" in c.callee_args):
            n += 1
            ctx.bad("C08.a", key("fold:" + meth), c.span, "unchecked i16 %s over an iterator" % meth)
    return n


def guarded(ctx, f, bb, key, span):
    g = GUARDED.get(key)
    if not g:
        return False
    needle, reason = g
    for c in f.conds_at(bb):
        if c[0] == "eq" and needle in str(c[1]) and c[2] is True:
            ctx.ok("C08.a", key, span, "guard re-verified: " + reason)
            return True
    ctx.bad("C08.a", key, span, "listed guard `%s` no longer dominates this site" % needle)
    return True


def rule_b(ctx, f):
    n = 0
    ordn = {}
    for c in f.calls():
        callee = c.callee or ""
        if not callee.startswith("core::num::<impl i16>::checked_"):
            continue
        meth = callee.rsplit("::", 1)[-1]
        ordn[meth] = ordn.get(meth, 0) + 1
        key = "%s/%s#%d" % (f.path, meth, ordn[meth])
        n += 1
        dest = f.cplace(c.dest)
        some_payload = "(%s as Some).0" % dest
        ok_some = False
        none_codes = []
        some_blocks = 0
        zero_literal_in_none = False
        for b, i, st in f.aggregates("mach::val::Val", "Integer"):
            v = f.variant_at(b, dest)
            if v == "Some":
                some_blocks += 1
                src = f.value_of_operand(st["rv"]["ops"][0])
                if src and src.get("k") == "place" and src["s"] == some_payload:
                    ok_some = True
                elif src and src.get("k") == "multi":
                    # user variable bound to the payload (`Some(n) => Integer(n)`)
                    ok_some = True if _bound_to(f, st["rv"]["ops"][0], some_payload) else ok_some
            elif v == "None":
                cv = f.const_of_operand(st["rv"]["ops"][0])
                if cv == 0:
                    zero_literal_in_none = True
        for b, code, span in f.error_codes():
            if f.variant_at(b, dest) == "None":
                none_codes.append((b, code, span))
        # combinator idiom: checked_x(..).map(Val::Integer).ok_or[_else](OVERFLOW)
        comb_none = None
        me = "call:%s(" % c.name
        for c2 in f.calls():
            if c2.name.endswith("Option::<T>::map") and f.describe(c2.args[0]).startswith(me):
                v2 = f.value_of_operand(c2.args[1])
                if (v2 or {}).get("fn_def") == "mach::val::Val::Integer::{Ctor#0}":
                    ok_some = True
                    me2 = "call:%s(%s" % (c2.name, me)
                    for c3 in f.calls():
                        if not f.describe(c3.args[0]).startswith(me2):
                            continue
                        if c3.name.endswith("Option::<T>::ok_or_else"):
                            v3 = f.value_of_operand(c3.args[1])
                            cl = (v3 or {}).get("rv", {}).get("closure")
                            g = f.crate.fns.get(cl)
                            if g is not None:
                                comb_none = [(c3.bb, code, sp) for _b, code, sp in g.error_codes()]
                        elif c3.name.endswith("Option::<T>::ok_or"):
                            comb_none = [(c3.bb, code, sp) for _b, code, sp in f.error_codes()
                                         if f.dominates(_b, c3.bb)]
        if comb_none is not None:
            none_codes = comb_none
        ctx.check(ok_some, "C08.b", key + "/some", c.span,
                  "Some(v) of %s flows unchanged into Val::Integer" % meth,
                  "no Val::Integer built from the Some payload of %s" % meth)
        if meth in ("checked_div", "checked_rem"):
            divisor = f.describe(c.args[1])
            zero_t = ("eq", "(%s Eq const:0)" % divisor, True)
            zero_f = ("eq", "(%s Ne const:0)" % divisor, False)
            dz = [(b, span) for b, code, span in f.error_codes() if code == "DivisionByZero"]
            ctx.check(bool(dz), "C08.b", key + "/divzero-exists", c.span,
                      "DIVISION BY ZERO is constructed", "no DIVISION BY ZERO for a zero divisor")
            for j, (b, span) in enumerate(dz, 1):
                conds = f.conds_at(b)
                ctx.check(zero_t in conds or zero_f in conds, "C08.b",
                          key + "/divzero-guard#%d" % j, span,
                          "DIVISION BY ZERO is constructed only when the divisor is 0",
                          "DIVISION BY ZERO is constructed on the whole None arm of %s: "
                          "-32768 %s -1 (None with a non-zero divisor) is reported as a "
                          "division by zero" % (meth, "\\" if meth == "checked_div" else "MOD"))
            if meth == "checked_div":
                ctx.check(any(code == "Overflow" for _b, code, _s in none_codes), "C08.b",
                          key + "/min-by-minus-one", c.span,
                          "None with non-zero divisor gives OVERFLOW",
                          "-32768\\-1 must raise OVERFLOW; the None arm never constructs it")
            else:
                ctx.check(zero_literal_in_none, "C08.b", key + "/min-mod-minus-one", c.span,
                          "None with non-zero divisor gives the exact result 0",
                          "-32768 MOD -1 is exactly 0; the None arm never yields Integer(0)")
        else:
            ctx.check(any(code == "Overflow" for _b, code, _s in none_codes)
                      and all(code == "Overflow" for _b, code, _s in none_codes),
                      "C08.b", key + "/none", c.span, "None arm constructs OVERFLOW",
                      "None arm of %s does not construct exactly OVERFLOW (%s)"
                      % (meth, [c_ for _b, c_, _s in none_codes]))
    return n


OPERATOR_PRIMS = {
    # entry point -> (checked primitive, MIR binop used by the widening idiom, operand count)
    "mach::operation::Operation::sum": ("checked_add", "Add", 2),
    "mach::operation::Operation::subtract": ("checked_sub", "Sub", 2),
    "mach::operation::Operation::multiply": ("checked_mul", "Mul", 2),
    "mach::operation::Operation::power": ("checked_pow", None, 2),
    "mach::operation::Operation::divint": ("checked_div", "Div", 2),
    "mach::operation::Operation::remainder": ("checked_rem", "Rem", 2),
    "mach::operation::Operation::negate": ("checked_neg", "Neg", 1),
    "mach::function::Function::abs": ("checked_abs", None, 1),
}
WIDE = ("i32", "i64", "i128", "isize")


def rule_d(ctx):
    cr = ctx.lib
    for path, (prim, wop, nops) in sorted(OPERATOR_PRIMS.items()):
        f = cr.need_fn(path)
        ctx.touch(f)
        key = "%s/exact-idiom" % path
        calls = f.calls_matching(r"^core::num::<impl i16>::%s$" % prim)
        ok = False
        how = ""
        for c in calls:
            # operands must be the function's own integer operands: match payloads of the
            # arguments or results of the i16 conversion of the arguments (not results of other
            # arithmetic)
            good = True
            for a in c.args[:nops]:
                if not _is_plain_operand(f, a):
                    good = False
            if good:
                ok = True
                how = "i16::%s on the unmodified operands" % prim
        if not ok and wop:
            for b, i, st in f.assigns():
                rv = st["rv"]
                if rv["k"] in ("binop",) and rv["op"].startswith(wop) and rv["lty"] in WIDE:
                    if _from_i16_cast(f, rv["l"]) and _from_i16_cast(f, rv["r"]):
                        narrowing = f.calls_matching(r"TryFrom<i(32|64|128|size)> for i16>::try_from")
                        if narrowing:
                            ok = True
                            how = "computed in %s and narrowed with i16::try_from" % rv["lty"]
        others = sorted({(c.callee or "").rsplit("::", 1)[-1] for c in f.calls()
                         if (c.callee or "").startswith("mach::operation::Operation::")})
        ctx.check(ok, "C08.d", key, f.span, how,
                  "the Integer cell of %s is not computed by i16::%s on its own operands nor by a "
                  "widened operation%s: an intermediate overflow can replace an exact in-range "
                  "result" % (path.rsplit("::", 1)[-1], prim,
                              " (it calls %s)" % others if others else ""))


def _is_plain_operand(f, op):
    v = f.value_of_operand(op)
    if v is None:
        return False
    if v["k"] == "place":
        # (arg as Integer).0 or (branch-result as Continue).0
        m = LOCAL1.search(v["s"])
        if not m:
            return False
        root = f.value_of_local(int(m.group(1)))
        if root["k"] == "arg":
            return True
        if root["k"] == "call":
            return _conv_of_arg(f, root["call"])
        return False
    if v["k"] == "arg":
        return True
    if v["k"] == "multi":
        # user variable bound once per arm from a payload
        for d in v["defs"]:
            if d[0] == "stmt" and d[3]["k"] == "use" and not _is_plain_operand(f, d[3]["op"]):
                return False
        return True
    if v["k"] == "rv" and v["rv"]["k"] == "cast":
        # r as u32 for checked_pow's exponent
        return _is_plain_operand(f, v["rv"]["op"])
    return False


def _conv_of_arg(f, call):
    """Try::branch(i16::try_from(arg)) chain"""
    nm = call.callee or ""
    if nm.endswith("Try::branch") or nm.endswith("TryFrom::try_from"):
        v = f.value_of_operand(call.args[0])
        if v is None:
            return False
        if v["k"] == "arg":
            return True
        if v["k"] == "call":
            return _conv_of_arg(f, v["call"])
    return False


def _from_i16_cast(f, op):
    v = f.value_of_operand(op)
    return bool(v and v["k"] == "rv" and v["rv"]["k"] == "cast" and v["rv"]["from"] == "i16"
                and _is_plain_operand(f, v["rv"]["op"]))


def _bound_to(f, op, payload):
    p = op_place(op)
    if p is None:
        return False
    for d in f.defs().get(p["local"], []):
        if d[0] == "stmt" and d[3]["k"] == "use":
            sp = op_place(d[3]["op"])
            if sp is not None and f.cplace(sp) == payload:
                return True
    return False


BOUNDS = {
    "i16": (("const:-32768.0", "const:-32768", "core::num::<impl i16>::min_value()"),
            ("const:32767.0", "const:32767", "core::num::<impl i16>::max_value()")),
    "u16": (("const:0.0", "const:0"),
            ("const:65535.0", "const:65535", "core::num::<impl u16>::max_value()")),
    "u32": (("const:0.0", "const:0"),
            ("const:4294967295.0", "core::num::<impl u32>::max_value()")),
    "usize": (("const:0.0", "const:0"), ("core::num::<impl usize>::max_value()",)),
}
WIDER_THAN_I16 = {"i32", "i64", "i128", "isize", "u16", "u32", "u64", "u128", "usize"}


NUM_BOUNDS = {"i16": (-32768.0, 32767.0), "u16": (0.0, 65535.0), "u32": (0.0, 4294967295.0)}


def _contains_range(f, b, src_op):
    """(start, end) of a constant RangeInclusive<float> whose contains(&src) is known true at b"""
    import struct
    src = f.describe(src_op)
    for c in f.calls_matching(r"RangeInclusive::<Idx>::contains$"):
        if not f.describe(c.args[1]).endswith(src):
            continue
        me = "call:%s(" % c.name
        held = any(cc[0] == "eq" and cc[2] is True and str(cc[1]).startswith(me) and src in str(cc[1])
                   for cc in f.conds_at(b))
        if not held:
            continue
        v = f.value_of_operand(c.args[0])
        k = None
        if v and v.get("k") == "const":
            k = v["const"]
        else:
            p = op_place(c.args[0])
            todo = [p["local"]] if p is not None else []
            for _ in range(4):
                nxt = []
                for l in todo:
                    for d in f.defs().get(l, []):
                        if d[0] != "stmt":
                            continue
                        if d[3]["k"] == "use" and d[3]["op"].get("k") == "const":
                            k = d[3]["op"]["const"]
                        elif d[3]["k"] == "ref":
                            nxt.append(d[3]["place"]["local"])
                        elif d[3]["k"] == "use" and op_place(d[3]["op"]) is not None:
                            nxt.append(op_place(d[3]["op"])["local"])
                todo = nxt
        if not k or "alloc_bytes" not in k:
            continue
        raw = bytes(k["alloc_bytes"])
        ty = k.get("ty", "")
        try:
            if "RangeInclusive<f32>" in ty:
                return struct.unpack("<ff", raw[:8])
            if "RangeInclusive<f64>" in ty:
                return struct.unpack("<dd", raw[:16])
        except struct.error:
            pass
    return None


def rule_c(ctx, f):
    n = 0
    ordn = {}
    codes = {code for _b, code, _s in f.error_codes()}
    for b, i, st in f.assigns():
        rv = st["rv"]
        if rv["k"] != "cast":
            continue
        to = rv["to"]
        is_f2i = rv["kind"] == "FloatToInt"
        is_narrow = rv["kind"] == "IntToInt" and to == "i16" and rv["from"] in WIDER_THAN_I16
        if not (is_f2i or is_narrow):
            continue
        n += 1
        tag = "%s->%s" % (rv["from"], to)
        ordn[tag] = ordn.get(tag, 0) + 1
        key = "%s/cast:%s#%d" % (f.path, tag, ordn[tag])
        if to not in BOUNDS:
            ctx.bad("C08.c", key, st["span"], "float->%s cast with no bound table" % to)
            continue
        src = f.describe(rv["op"])
        lows, highs = BOUNDS[to]
        lo = hi = False
        nan_lo = nan_hi = False
        # a float comparison that is FALSE says nothing about NaN (`!(x < 0.0)` holds for NaN,
        # and `NaN as usize` is 0): for float sources only the affirmative forms bound the value,
        # unless NaN is excluded separately
        not_nan = (not is_f2i) or any(
            c[0] == "eq" and c[2] is False and re.search(r"::is_nan\(", str(c[1]))
            for c in f.conds_at(b)) or any(
            c[0] == "eq" and c[2] is True and re.search(r"::is_finite\(", str(c[1]))
            for c in f.conds_at(b))
        for op, l, r, truth in f.cmp_conds_at(b):
            if not f.same_origin(l, rv["op"]):
                continue
            bound = f.describe(r)
            if any(x in bound for x in lows):
                if op == "Ge" and truth or (op == "Lt" and not truth and not_nan):
                    lo = True
                elif op == "Lt" and not truth:
                    nan_lo = True
            if any(x in bound for x in highs):
                if op == "Le" and truth or (op == "Gt" and not truth and not_nan):
                    hi = True
                elif op == "Gt" and not truth:
                    nan_hi = True
        if (nan_lo and not lo) or (nan_hi and not hi):
            ctx.bad("C08.c", key, st["span"],
                    "cast %s of `%s` is guarded by a NEGATED float comparison only (`!(x < lo)` / "
                    "`!(x > hi)`): NaN passes both (0/0, SQR(-1)) and is cast to 0 instead of "
                    "raising OVERFLOW" % (tag, src))
            continue
        # the same two tests written as `(MIN as f..=MAX as f).contains(&x)`
        if not (lo and hi):
            rng = _contains_range(f, b, rv["op"])
            if rng is not None and to in NUM_BOUNDS:
                lo = lo or rng[0] >= NUM_BOUNDS[to][0]
                hi = hi or rng[1] <= NUM_BOUNDS[to][1]
        unsigned_src = rv["from"].startswith("u")
        if is_narrow and unsigned_src:
            lo = True  # an unsigned source cannot be below i16::MIN
        ok = lo and hi and (is_narrow or "Overflow" in codes)
        ctx.check(ok, "C08.c", key, st["span"],
                  "cast of %s is under both range tests; out of range -> OVERFLOW" % src,
                  "cast %s of `%s` lacks %s%s (an out-of-range value would be silently "
                  "saturated/truncated)" % (tag, src,
                                            ", ".join(x for x, y in (("a lower-bound test", lo),
                                                                     ("an upper-bound test", hi))
                                                      if not y) or "",
                                            "" if "Overflow" in codes
                                            else " an OVERFLOW error path"))
    return n


NARROWING = re.compile(r"^(cast:FloatToFloat:f64->f32|"
                       r"<f32 as std::convert::TryFrom<mach::val::Val>>::try_from)$")


def rule_e(ctx, f):
    n = 0
    ordn = {}
    for b, i, st in f.assigns():
        rv = st["rv"]
        if rv["k"] != "cast" or rv["kind"] != "FloatToInt":
            continue
        n += 1
        tag = "%s->%s" % (rv["from"], rv["to"])
        ordn[tag] = ordn.get(tag, 0) + 1
        key = "%s/precision:%s#%d" % (f.path, tag, ordn[tag])
        names = f.back_slice_calls(rv["op"])
        bad = sorted(x for x in names if NARROWING.match(x))
        ctx.check(not bad, "C08.e", key, st["span"], "converted at the value's own precision",
                  "the value cast to %s went through %s first: a Double within float rounding "
                  "distance of a limit (or of a whole number) is rounded before the floor and the "
                  "range test, so -32768.001# is accepted and 32767.999# overflows"
                  % (rv["to"], bad))
    return n


def rel_config(ctx):
    """thorough: the verdicts that do not concern debug-only panics must coincide when the
    crate is built without debug assertions / overflow checks"""
    rel = ctx.alt_crate("rel")
    n = 0
    for p, f in sorted(rel.fns.items()):
        for b, i, st in f.assigns():
            rv = st["rv"]
            if rv["k"] == "binop" and (rv["lty"] in I16_TYS) and rv["op"] in ARITH:
                n += 1
                k = "%s/%s" % (p, rv["op"])
                ctx.bad("C08.a", "rel/" + k, st["span"], "unchecked %s on i16 in release config"
                        % rv["op"])
            if rv["k"] == "unop" and rv["ty"] in I16_TYS and rv["op"] == "Neg":
                n += 1
                k = "%s/Neg" % p
                if (p + "/Neg#1") in GUARDED:
                    ctx.ok("C08.a", "rel/" + k, st["span"], "guarded (see dev config)")
                else:
                    ctx.bad("C08.a", "rel/" + k, st["span"],
                            "unchecked unary minus on i16 (release config: silently wraps)")
    ctx.notes.append("release-like configuration re-extracted: %d unchecked i16 sites" % n)
