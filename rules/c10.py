"""C10 - user functions bind parameters locally and evaluate at call time.

Decides: parameter locality by construction (mangled names that no identifier can spell, one
substitution map threaded through the whole body parse); the call/return frame template
(return address pushed before the arguments on every call, parameters popped first-to-last);
error mapping. Does not decide values."""
import re


def run(ctx):
    cr = ctx.lib
    ctx.rule("C10.a", "DEF maps each parameter token to a mangled name containing '.', which the "
             "identifier scanner cannot produce; the same mangled names are the Pop targets; the "
             "body is parsed with that map, and descend() consults it for every plain identifier "
             "and hands it unchanged to every recursive parse")
    ctx.rule("C10.b", "FNx(args): r#fn pushes Val::Return(pc) on every path before it moves pc "
             "(no frame-less call), then the arguments in reverse; push_def_fn emits count, Def, "
             "a jump over the body, Pop per parameter in order, the body, Return; r#def records "
             "(arity, pc+1)")
    ctx.rule("C10.c", "wrong argument count -> ILLEGAL FUNCTION CALL; unknown function -> UNDEFINED "
             "USER FUNCTION; DEF in direct mode -> ILLEGAL DIRECT; calls grow the checked stack")
    rule_a(ctx, cr)
    rule_b(ctx, cr)
    rule_c(ctx, cr)


MANGLER = ("<lang::ast::Ident as std::convert::From<(&lang::token::Ident, "
           "&lang::token::Ident)>>::from")


def rule_suffix_set(ctx, cr, rid):
    """the DEF FN parameter mangler splits a parameter at the store's type suffixes $ ! # %"""
    mg = cr.need_fn(MANGLER)
    fam = [mg] + list(cr.closures_of(mg.path))
    n_s = 0
    for g in fam:
        for c in g.calls_matching(r"<impl str>::(trim_end_matches|strip_suffix|ends_with|rfind)$"):
            chars = set(re.findall(r"const:'(.)'", " ".join(g.describe(a) for a in c.args[1:])))
            if not chars:
                continue
            n_s += 1
            ctx.check(chars == set("$!#%"), rid, "mangle/suffix-set#%d" % n_s, c.span,
                      "the suffix characters are $ ! # %",
                      "the mangler splits the parameter at the characters %s, the variable store "
                      "types a name by $ ! # %%: a parameter with the suffix %s keeps it in the "
                      "middle of the mangled name and is typed by its first letter (DEFINT A-Z "
                      "makes X! an integer, N%% holds 5.4)" % (sorted(chars), sorted(set("$!#%") ^ chars)))


def rule_a(ctx, cr):
    mg = cr.need_fn("<lang::ast::Ident as std::convert::From<(&lang::token::Ident, "
                    "&lang::token::Ident)>>::from")
    ctx.touch(mg)
    fam = [mg] + list(cr.closures_of(mg.path))
    for g in fam:
        ctx.touch(g)
    from rules import tables
    tpls = [t for g in fam for b in g.reachable() for t in tables.block_strings(g, b)
            if "{}" in t]
    pushes = [g.const_of_operand(c.args[1]) for g in fam for c in g.calls_matching(r"String::push$")]
    ctx.check(any("." in t for t in tpls) or "." in pushes, "C10.a", "mangle/separator", mg.span,
              "mangled parameter names contain a '.', which no identifier can",
              "mangled parameter names are built without a '.' (%s %s): they can collide with "
              "program variables" % (tpls, pushes))
    # the function's name goes in unchanged; only the parameter may be split into base + suffix
    xform = re.compile(r"<impl str>::(trim\w*|replace\w*|to_\w*case|split\w*|strip_\w+|get)$|"
                       r"ops::Index<I> for str>::index$")
    bad = []
    n_x = 0
    for g in fam:
        for c in g.calls():
            if not xform.search(c.name) and not xform.search(c.callee or ""):
                continue
            n_x += 1
            d = g.describe(c.args[0])
            if not ("arg:2" in d or "_1.1" in d):
                bad.append((c.name.rsplit("::", 1)[1], d[:50]))
    ctx.check(not bad, "C10.a", "mangle/function-name-verbatim", mg.span,
              "no transformation is applied to the function's name (%d on the parameter)" % n_x,
              "the mangler rewrites something that is not the parameter (%s): if the function "
              "name is shortened, FNA / FNA$ / FNA%% share one storage slot for same-named "
              "parameters and a nested call overwrites the caller's parameter" % bad)
    rule_suffix_set(ctx, cr, "C10.a")
    # typed by the parameter: first and last piece come from the parameter, the middle does not
    pieces = None
    for g in fam:
        for c in g.calls_matching(r"fmt::Arguments::<'a>::new$"):
            pieces = _format_pieces(g, c.args[1])
    ok = bool(pieces) and len(pieces) == 3 and "arg:2" in pieces[0] and \
        "arg:2" in pieces[2] and "arg:2" not in pieces[1]
    ctx.check(ok, "C10.a", "mangle/typed-by-parameter", mg.span,
              "<parameter base>.<function>.<parameter suffix>: Var types a name by its last "
              "character or else its first letter, both are the parameter's",
              "the mangled name does not begin with the parameter's own text and end with the "
              "parameter's own suffix (pieces: %s): the variable store would type the parameter "
              "by the function's first letter (DEFINT F makes every numeric parameter an "
              "integer, DEFSTR S is ignored for a parameter S)" % (pieces,))
    al = cr.need_fn("lang::lex::BasicLexer::alphabetic")
    ctx.touch(al)
    from rules import lextables as lt
    chars = {ch for ch, _b, _d, _s, _o in lt.char_consts(al)}
    ctx.check("." not in chars and chars <= set("$!#%"), "C10.a", "lexer/no-dot-in-identifiers",
              al.span, "the identifier scanner only special-cases %s" % sorted(chars),
              "the identifier scanner now looks at %s" % sorted(chars))
    d = cr.need_fn("lang::ast::Statement::def")
    ctx.touch(d)
    efe = d.calls_to("lang::parse::BasicParser<'a>::expect_fn_expression")
    plain = d.calls_to("lang::parse::BasicParser<'a>::expect_expression")
    ok = len(efe) == 1 and not plain
    if ok:
        names = d.back_slice_calls(efe[0].args[1])
        ok = any("HashMap" in n and ("default" in n or "new" in n) for n in names) or \
            "var_map" in d.describe(efe[0].args[1])
    ctx.check(ok, "C10.a", "def/body-parsed-with-map", d.span,
              "the body is parsed by expect_fn_expression(&var_map)",
              "the DEF body is not parsed with the parameter map: parameters would read program "
              "variables of the same name")
    cl = cr.closures_of(d.path)
    okc = False
    for c in cl:
        ctx.touch(c)
        frm = c.calls_to(mg.path)
        ins = c.calls_matching(r"HashMap::<K, V, S, A>::insert$")
        if len(frm) == 1 and len(ins) == 1:
            # the mangled ident feeds both the map value and the returned Variable
            built = [st for b, i, st in c.aggregates("lang::ast::Variable", "Unary")]
            feeds = 0
            for st in built:
                names = set()
                for o in st["rv"]["ops"]:
                    names |= c.back_slice_calls(o)
                if any(n == mg.path for n in names):
                    feeds += 1
            okc = feeds >= 2
    ctx.check(okc, "C10.a", "def/map-and-pop-targets-share-names", d.span,
              "the map entry and the Pop target of a parameter are the same mangled name")
    ds = cr.need_fn("lang::ast::Expression::expect::descend")
    ctx.touch(ds)
    gets = [c for c in ds.calls_matching(r"HashMap::<K, V, S, A>::get$")
            if ds.describe(c.args[0]) == "arg:2"]
    arrs = [b for b, i, st in ds.aggregates("lang::ast::Variable", "Array")]
    ctx.check(bool(arrs) and not any(ds.can_reach(g.bb, b) for g in gets for b in arrs), "C10.a",
              "descend/substitutes-scalars-only", ds.span,
              "NAME( .. ) inside a function body stays the program's array or function NAME: the "
              "parameter map is consulted only on the path of a plain identifier",
              "descend() looks an identifier up in the parameter map before it knows whether a "
              "`(` follows: an array that shares its name with a parameter is replaced by the "
              "parameter's private name inside the body and no longer reads the program's array")
    ctx.check(len(gets) == 1, "C10.a", "descend/consults-map", ds.span,
              "a plain identifier is looked up in the parameter map")
    bad = []
    n = 0
    for c in ds.calls():
        if c.name in (ds.path, "lang::parse::BasicParser<'a>::expect_fn_expression_list"):
            n += 1
            if ds.describe(c.args[1]) != "arg:2":
                bad.append(c.span["line"])
        if c.name in ("lang::parse::BasicParser<'a>::expect_expression",
                      "lang::parse::BasicParser<'a>::expect_expression_list"):
            bad.append(c.span["line"])
    ctx.check(n >= 6 and not bad, "C10.a", "descend/threads-map", ds.span,
              "all %d recursive parses receive the same map" % n,
              "descend() starts a sub-parse without the parameter map at lines %s: a parameter "
              "used there (array subscript, nested argument) reads the program variable" % bad)
    for name in ("expect_fn_expression_list", "expect_fn_expression"):
        g = cr.need_fn("lang::parse::BasicParser<'a>::" + name)
        ctx.touch(g)
        cs = [c for c in g.calls() if c.name in ("lang::parse::BasicParser<'a>::expect_fn_expression",
                                                 "lang::ast::Expression::expect")]
        ctx.check(bool(cs) and all(g.describe(c.args[1]) == "arg:2" for c in cs), "C10.a",
                  "%s/threads-map" % name, g.span, "passes its map on")
    ex = cr.need_fn("lang::ast::Expression::expect")
    cs = ex.calls_to(ds.path)
    ctx.check(len(cs) == 1 and ex.describe(cs[0].args[1]) == "arg:2", "C10.a",
              "Expression::expect/threads-map", ex.span, "passes its map to descend")


def rule_b(ctx, cr):
    f = cr.need_fn("mach::runtime::Runtime::fn")
    ctx.touch(f)
    pcs = f.field_stores("pc")
    rpush = []
    for c in f.calls_to("mach::stack::Stack<T>::push"):
        sv = f.stored_variant(f.value_of_operand(c.args[1]))
        if sv == ("mach::val::Val", "Return"):
            rpush.append(c)
    ok = bool(pcs) and bool(rpush) and all(any(f.dominates(c.bb, b) for c in rpush)
                                           for b, _s, _v in pcs)
    ctx.check(ok, "C10.b", "fn/return-address-pushed-before-jump", f.span,
              "every transfer of pc is dominated by a push of Val::Return",
              "some path of r#fn moves pc into the function body without pushing a return "
              "address: that call reuses its caller's frame (runaway recursion no longer ends in "
              "OUT OF MEMORY, and the value returns to the wrong place)")
    if rpush:
        d = f.describe(f.value_of_operand(rpush[0].args[1])["rv"]["ops"][0])
        ctx.check(d.endswith(".pc"), "C10.b", "fn/return-address-is-pc", rpush[0].span,
                  "the return address is the current pc (%s)" % d)
    rev = f.calls_matching(r"Iterator>?::rev$")
    rb = {c.bb for c in rpush}
    argpush = [c for c in f.calls_to("mach::stack::Stack<T>::push") if c.bb not in rb]
    okr = len(rev) == 1 and len(argpush) == 1 and rpush and \
        f.dominates(rpush[0].bb, argpush[0].bb)
    ctx.check(bool(okr), "C10.b", "fn/args-reversed-above-frame", f.span,
              "arguments are pushed in reverse above the return address")
    p = cr.need_fn("mach::link::Link::push_def_fn")
    ctx.touch(p)
    seq = []
    for c in sorted(p.calls(), key=lambda c: sum(1 for o in p.calls() if p.dominates(o.bb, c.bb))):
        if c.name == "mach::link::Link::push":
            sv = p.stored_variant(p.value_of_operand(c.args[1]))
            seq.append(sv[1] if sv else "?")
        elif c.name in ("mach::link::Link::push_jump", "mach::link::Link::append",
                        "mach::link::Link::push_symbol"):
            seq.append(c.name.rsplit("::", 1)[1])
    want = ["Literal", "Def", "push_jump", "Pop", "append", "Return", "push_symbol"]
    ctx.check(seq == want, "C10.b", "push_def_fn/template", p.span, " ".join(seq),
              "push_def_fn emits %s (expected %s)" % (seq, want))
    ctx.check(not p.calls_matching(r"Iterator>?::rev$"), "C10.b", "push_def_fn/param-order", p.span,
              "parameters are popped first to last")
    d = cr.need_fn("mach::runtime::Runtime::def")
    ctx.touch(d)
    ins = d.calls_matching(r"HashMap::<K, V, S, A>::insert$")
    okd = False
    if ins:
        v = d.value_of_operand(ins[0].args[2])
        if v and v.get("k") == "rv" and v["rv"].get("agg") == "tuple":
            a = d.describe(v["rv"]["ops"][1])
            okd = bool(re.search(r"\.pc Add(WithOverflow)? const:1\)", a))
    ctx.check(okd, "C10.b", "def/entry-address", d.span,
              "the function's entry is pc + 1 (the first Pop after the jump)")
    # every successful DEF replaces the whole entry (arity AND address): no Ok return avoids the
    # insert, and nothing else hands out a mutable reference into the table
    if ins:
        oks = [b for b, i, st in d.aggregates("std::result::Result", "Ok")]
        skip = set()
        for b in oks:
            if b in d.reach_set(0, avoid={c.bb for c in ins}):
                skip.add(b)
        ctx.check(bool(oks) and not skip, "C10.b", "def/records-arity-with-entry", ins[0].span,
                  "every Ok return of Runtime::def passes the insert of (parameter count, entry)",
                  "Runtime::def can succeed without inserting (count, entry): a second DEF of the "
                  "same name with another parameter count keeps the old count, the call is "
                  "rejected or the body pops the return address as a parameter")
        v = d.value_of_operand(ins[0].args[2])
        arity = d.describe(v["rv"]["ops"][0]) if v and v.get("k") == "rv" and \
            v["rv"].get("agg") == "tuple" else ""
        ctx.check("Stack<T>::pop" in arity, "C10.b", "def/arity-from-operand", ins[0].span,
                  "the recorded parameter count is the popped operand (%s)" % arity[:80],
                  "the parameter count recorded by DEF is not the operand the generator pushed")
    g = cr.need_fn("mach::codegen::Generator::def")
    c = g.calls_to("mach::link::Link::push_def_fn")
    ctx.check(len(c) == 1, "C10.b", "Generator::def/uses-push_def_fn", g.span, "DEF -> push_def_fn")


def rule_c(ctx, cr):
    f = cr.need_fn("mach::runtime::Runtime::fn")
    get = f.calls_matching(r"HashMap::<K, V, S, A>::get$")
    dest = f.cplace(get[0].dest) if get else ""
    und = [c for b, c, _s in f.error_codes() if f.variant_at(b, dest) == "None"]
    ctx.check(und == ["UndefinedUserFunction"], "C10.c", "fn/undefined", f.span,
              "unknown function -> UNDEFINED USER FUNCTION", "unknown function raises %s" % und)
    ar = []
    for b, c, _s in f.error_codes():
        for op, l, r, truth in f.cmp_conds_at(b):
            if op == "Eq" and not truth and "len(" in f.describe(r) + f.describe(l):
                ar.append(c)
    ctx.check(ar == ["IllegalFunctionCall"], "C10.c", "fn/arity", f.span,
              "argument count mismatch -> ILLEGAL FUNCTION CALL", "arity mismatch raises %s" % ar)
    d = cr.need_fn("mach::runtime::Runtime::def")
    okd = False
    for b, c, _s in d.error_codes():
        if c == "IllegalDirect":
            for op, l, r, truth in d.cmp_conds_at(b):
                if op == "Ge" and truth and d.describe(l).endswith(".pc") and \
                        d.describe(r).endswith(".entry_address"):
                    okd = True
    ctx.check(okd, "C10.c", "def/illegal-direct", d.span, "DEF at pc >= entry_address is ILLEGAL DIRECT")
    # calls grow the checked stack only
    pushes = [c for c in f.calls() if "push" in c.name.rsplit("::", 1)[-1]]
    ctx.check(all(c.name == "mach::stack::Stack<T>::push" for c in pushes), "C10.c",
              "fn/uses-checked-stack", f.span, "frames are pushed through Stack::push (OUT OF MEMORY "
              "on runaway recursion)")


def _agg_behind(g, op, want, depth=0):
    """follow refs / reborrows / copies from an operand to the aggregate statement it denotes"""
    from lib.mir import op_place
    p = op_place(op)
    if p is None or depth > 8:
        return None
    for d in g.defs().get(p["local"], []):
        if d[0] != "stmt":
            continue
        rv = d[3]
        if rv["k"] == "aggregate" and rv.get("agg") == want:
            return rv
        if rv["k"] == "ref":
            r = _agg_behind(g, {"k": "copy", "place": {"local": rv["place"]["local"], "proj": []}},
                            want, depth + 1)
            if r is not None:
                return r
        if rv["k"] == "use":
            r = _agg_behind(g, rv["op"], want, depth + 1)
            if r is not None:
                return r
    return None


def _format_pieces(g, args_op):
    """describe, in order, the values interpolated by a format_args! call"""
    from lib.mir import op_place
    arr = _agg_behind(g, args_op, "array")
    if arr is None:
        return None
    out = []
    for o in arr["ops"]:
        v = g.value_of_operand(o)
        if not (v and v.get("k") == "call"):
            return None
        a = v["call"].args[0]               # &(*_t.N)  or a plain reference
        d = g.describe(a)
        m = re.search(r"\(\*_(\d+)\.(\d+)\)", d)
        if m:
            tup = _agg_behind(g, {"k": "copy", "place": {"local": int(m.group(1)), "proj": []}},
                              "tuple")
            if tup is not None and int(m.group(2)) < len(tup["ops"]):
                d = g.describe(tup["ops"][int(m.group(2))])
        out.append(d)
    return out
