"""C07 - string operations work on characters, within 0..255.

Decides units, limits and sentinel handling: every string slice in the VM takes byte offsets
that provably come from char_indices()/find()/len() of the *same* string (never from a BASIC
number); lengths and limits count characters; the 255 limits use `>`; a not-found search is
not folded into a legal position; domain errors map to the documented codes.
Does not decide that the returned substring is the documented one for all arguments."""
import re

from lib.mir import op_place
from rules import common

SCOPE_PREFIX = ("mach::function::", "mach::runtime::", "mach::val::", "<mach::val::", "mach::var::")
SOURCE_CALLS = ("char_indices", "CharIndices", "::find", "rfind", "::len", "char_indices")
# str slices whose offsets are fixed one-byte steps proven by a dominating test (key -> guard)
GUARDED_SLICES = {
    "<mach::val::Val as std::convert::From<&str>>::from":
        ("::starts_with", "&string[1..] after starts_with('H'|'h') (one-byte prefix)"),
    "mach::runtime::Runtime::input":
        ("::ends_with", "field[1..len-1] after starts_with('\"') && ends_with('\"') && len >= 2"),
}


def str_root(f, op, depth=0):
    """identity of the string object an operand (reference) denotes: ('local', n) /
    ('call', bb) / ('arg', n); looks through & / * / Deref::deref / AsRef / Borrow"""
    if depth > 12 or op is None:
        return None
    p = op_place(op)
    if p is None:
        return None
    return _root_of_place(f, p, depth)


def _root_of_place(f, p, depth):
    v = f.value_of_local(p["local"])
    k = v.get("k")
    if k == "call":
        c = v["call"]
        nm = c.callee or ""
        if nm.endswith("Deref::deref") or nm.endswith("AsRef::as_ref") or \
                nm.endswith("Borrow::borrow") or nm.endswith("::as_str") or \
                nm.endswith("String::as_str"):
            return str_root(f, c.args[0], depth + 1)
        return ("call", c.bb)
    if k == "rv":
        rv = v["rv"]
        if rv["k"] == "ref":
            return _root_of_place(f, rv["place"], depth + 1)
        if rv["k"] == "use":
            return str_root(f, rv["op"], depth + 1)
        return ("rv", v["bb"], v["idx"])
    if k == "arg":
        return ("arg", v["n"])
    if k == "place":
        return _root_of_place(f, {"local": _first_local(v["s"]), "proj": []}, depth + 1) \
            if _first_local(v["s"]) not in (None, p["local"]) else ("place", v["s"])
    if k == "multi":
        return ("local", v["local"])
    return ("local", p["local"])


def _first_local(s):
    m = re.search(r"_(\d+)", s)
    return int(m.group(1)) if m else None


def offset_sources(f, op, depth=0, seen=None):
    """calls that produce byte offsets in the back-slice of an operand:
    list of (kind, Call) with kind in char_indices/find/len; also ('const', v), ('arg', n)
    for raw sources"""
    if seen is None:
        seen = set()
    out = []
    if op is None or depth > 16:
        return out
    if op.get("k") == "const":
        out.append(("const", op["const"].get("int")))
        return out
    p = op_place(op)
    if p is None:
        return out
    l = p["local"]
    if l in seen:
        return out
    seen.add(l)
    for d in f.defs().get(l, []):
        if d[0] == "arg":
            out.append(("arg", l))
        elif d[0] == "call":
            c = d[2]
            nm = c.callee or ""
            res = c.resolved or ""
            if nm.endswith("str>::char_indices") or nm.endswith("<impl str>::char_indices"):
                out.append(("char_indices", c))
            elif re.search(r"<impl str>::(find|rfind)$", nm):
                out.append(("find", c))
            elif re.search(r"(<impl str>|String)::len$", nm):
                out.append(("len", c))
            elif "TryFrom<mach::val::Val>" in res or "TryFrom<mach::val::Val>" in nm:
                out.append(("number", c))
            elif nm.startswith("std::iter::") or "Iterator" in nm.split("::")[-2:-1]:
                # iterator adaptors/consumers (nth, next, last, rev, enumerate ...): the offset
                # comes from the iterator, the count argument only selects an element
                if c.args:
                    out += offset_sources(f, c.args[0], depth + 1, seen)
            else:
                for a in c.args:
                    out += offset_sources(f, a, depth + 1, seen)
        elif d[0] == "stmt":
            rv = d[3]
            from lib.mir import rvalue_operands
            for o in rvalue_operands(rv):
                out += offset_sources(f, o, depth + 1, seen)
            if rv["k"] in ("ref", "discriminant"):
                out += offset_sources(f, {"k": "copy", "place": {"local": rv["place"]["local"],
                                                               "proj": []}}, depth + 1, seen)
        elif d[0] == "partial" and d[3].get("k") == "assign":
            from lib.mir import rvalue_operands
            for o in rvalue_operands(d[3]["rv"]):
                out += offset_sources(f, o, depth + 1, seen)
    return out


def slice_sites(f):
    return [c for c in f.calls() if (c.callee or "").endswith("ops::Index::index")
            and c.self_ty == "str"]


def check_slices(ctx, f):
    n = 0
    for i, c in enumerate(slice_sites(f), 1):
        n += 1
        key = "%s/slice#%d" % (f.path, i)
        g = GUARDED_SLICES.get(f.path)
        srcs = offset_sources(f, c.args[1])
        kinds = {k for k, _x in srcs}
        recv = str_root(f, c.args[0])
        if g and kinds <= {"const", "len"}:
            ok = any(g[0] in (cc.callee or "") and cc.bb != c.bb and f.dominates(cc.bb, c.bb)
                     for cc in f.calls())
            ctx.check(ok, "C07.a", key, c.span, g[1],
                      "constant-offset slice is no longer dominated by the `%s` test" % g[0])
            continue
        if "number" in kinds or "arg" in kinds and not (kinds & {"char_indices", "find"}):
            ctx.bad("C07.a", key, c.span,
                    "a slice bound comes straight from a numeric BASIC argument / parameter "
                    "(sources: %s): it counts bytes, so a multi-byte character is split or the "
                    "slice panics" % sorted(kinds))
            continue
        if not (kinds & {"char_indices", "find"}):
            ctx.bad("C07.a", key, c.span,
                    "slice bounds have no char_indices()/find() provenance (sources: %s)"
                    % sorted(kinds))
            continue
        # same-string agreement
        bad = []
        for k, cc in srcs:
            if k in ("char_indices", "find", "len"):
                r = str_root(f, cc.args[0])
                if r != recv:
                    bad.append((k, cc.span["line"]))
        ctx.check(not bad, "C07.a", key, c.span,
                  "byte offsets come from char_indices()/find() of the sliced string",
                  "the offsets used to slice this string were computed on a different string "
                  "(%s): positions do not correspond" % bad)
    return n


def run(ctx):
    cr = ctx.lib
    ctx.rule("C07.a", "every `str` slice in mach::{function,runtime,val,var} takes bounds whose "
             "def-use back-slice ends in char_indices()/find()/len() of the same string object "
             "(or in the two reviewed constant-offset slices under their guards); a bound that "
             "derives from a numeric BASIC argument without char_indices().nth() is a violation; "
             "offsets returned by find() are only matched against char_indices() of the string "
             "that was searched")
    ctx.rule("C07.b", "LEN, the 255 limit in Var::insert_string and Expression::literal count "
             "with chars().count(); str::len is not used as a value there")
    ctx.rule("C07.c", "the 255 limits (insert_string, literal, SPC, STRING$) are `> 255` tests and "
             "TAB is checked against -255..=255")
    ctx.rule("C07.d", "no Option::unwrap_or(legal value) on the result of str::find / "
             "Iterator::position: not-found must stay distinguishable")
    ctx.rule("C07.e", "error mapping: ASC(\"\") / STRING$(n,\"\") -> ILLEGAL FUNCTION CALL; CHR$ / "
             "STRING$ out of range -> OVERFLOW; MID$ / INSTR position 0 -> error")
    fns = sorted([f for p, f in cr.fns.items() if p.startswith(SCOPE_PREFIX)],
                 key=lambda f: f.path)
    n = 0
    for f in fns:
        k = check_slices(ctx, f)
        if k:
            ctx.touch(f)
        n += k
    # 11 on the pinned tree; the two constant-offset slices (INPUT's quotes, the radix prefix) can
    # be rewritten with strip_prefix/strip_suffix without changing behaviour, so the floor is the
    # nine slices of the string functions themselves
    ctx.floor("C07.a", "string slice sites", n, 9)
    rule_a2(ctx, cr)
    rule_b(ctx, cr)
    rule_c(ctx, cr)
    rule_d(ctx, cr, fns)
    rule_e(ctx, cr)
    ctx.rule("C07.f", "MID$ returns a slice of its argument that starts at the requested position, "
             "or the empty string: the argument string itself is never handed back unsliced (a "
             "start position past the end yields \"\", not the whole string)")
    ctx.rule("C07.i", "a refused MID$ assignment leaves its target alone: the validation error of "
             "Runtime::letmid (position 0) is raised when the position, length and replacement "
             "have been taken off the stack and the target string has not - the store opcode that "
             "follows (executed if the program is continued) then writes the target's own value")
    rule_i(ctx, cr)
    ctx.rule("C07.g", "a signed BASIC number becomes an unsigned count/position only under a sign "
             "test of the same value (>= 0 true / < 0 false), so a negative argument is an error "
             "and not a huge position; the compiler-emitted counts are the reviewed exceptions")
    rule_f(ctx, cr)
    rule_g(ctx, cr)
    ctx.rule("C07.h", "the string functions of the built-in table (names ending in $, LEN, ASC, "
             "VAL, INSTR) reach the handler of the same name with the arity the handler takes "
             "(see C02.h)")
    from rules import c02
    c02.function_table(ctx, cr, "C07.h",
                       lambda n: n.endswith("$") or n in ("LEN", "ASC", "VAL", "INSTR"))
    from rules import c08 as _c08
    _c08.rule_c(common.Proxy(ctx, "C07.e"), cr.need_fn("mach::function::Function::asc"))
    common.selftest(ctx, "C07.a", ["raw_slice_from_number"], lambda col, f: check_slices(col, f))
    common.selftest(ctx, "C07.d", ["find_sentinel"], lambda col, f: rule_d(col, None, [f]))


def rule_a2(ctx, cr):
    """find() offsets and the char_indices() they are matched against"""
    n = 0
    for p, f in sorted(cr.fns.items()):
        if not p.startswith(SCOPE_PREFIX) or "{closure" in p:
            continue
        finds = [c for c in f.calls() if re.search(r"<impl str>::(find|rfind)$", c.callee or "")]
        for i, fc in enumerate(finds, 1):
            n += 1
            root = str_root(f, fc.args[0])
            later = [c for c in f.calls()
                     if (c.callee or "").endswith("<impl str>::char_indices")
                     and c.bb != fc.bb and f.dominates(fc.bb, c.bb)]
            bad = [c.span["line"] for c in later if str_root(f, c.args[0]) != root]
            ctx.check(not bad, "C07.a", "%s/find#%d/same-string" % (p, i), fc.span,
                      "the offset returned by find() is matched against char_indices() of the "
                      "searched string",
                      "find() searched one string but its byte offset is matched against "
                      "char_indices() of another (lines %s): the reported position is wrong "
                      "whenever the two differ by a multi-byte prefix" % bad)
    ctx.floor("C07.a", "find() sites", n, 1)


def rule_b(ctx, cr):
    for path, what in (("mach::function::Function::len", "LEN"),
                       ("mach::var::Var::insert_string", "the 255 limit on store"),
                       ("lang::ast::Expression::literal", "the 255 limit on literals")):
        f = cr.need_fn(path)
        ctx.touch(f)
        names = {c.name for c in f.calls()} | {c.callee for c in f.calls()}
        cnt = any("Chars<'a> as std::iter::Iterator>::count" in (n or "") for n in names)
        blen = [c for c in f.calls() if re.search(r"(<impl str>|String)::len$", c.callee or "")]
        ctx.check(cnt and not blen, "C07.b", "%s/counts-chars" % path, f.span,
                  "%s counts with chars().count()" % what,
                  "%s %s: lengths would be measured in bytes"
                  % (what, "uses str::len" if blen else "no longer uses chars().count()"))


def rule_c(ctx, cr):
    spots = [("mach::var::Var::insert_string", "count("), ("lang::ast::Expression::literal", "count("),
             ("mach::function::Function::spc", "Continue"), ("mach::function::Function::string", "Continue")]
    for path, needle in spots:
        f = cr.need_fn(path)
        ctx.touch(f)
        ok = False
        seen = []
        for b, i, st in f.assigns():
            rv = st["rv"]
            if rv["k"] == "binop" and rv["op"] in ("Gt", "Ge", "Lt", "Le"):
                r = f.describe(rv["r"])
                l = f.describe(rv["l"])
                if r in ("const:255", "const:256") or l in ("const:255", "const:256"):
                    seen.append("%s %s %s" % (l[-30:], rv["op"], r[-30:]))
                    if rv["op"] == "Gt" and r == "const:255":
                        ok = True
        ctx.check(ok, "C07.c", "%s/limit-255" % path, f.span, "`> 255` (%s)" % seen,
                  "the 255 limit is tested as %s (expected `x > 255`: 255 accepted, 256 "
                  "rejected)" % (seen or "nothing"))
    tab = cr.need_fn("mach::function::Function::tab")
    ctx.touch(tab)
    rng = None
    for g in [tab] + tab.promoted_fns():
        for c in g.calls_matching(r"RangeInclusive::<Idx>::new$"):
            rng = (g.const_of_operand(c.args[0]), g.const_of_operand(c.args[1]))
    ctx.check(rng == (-255, 255), "C07.c", "Function::tab/range", tab.span,
              "TAB argument is checked against -255..=255", "TAB range is %s" % (rng,))


def rule_d(ctx, cr, fns):
    n = 0
    for f in fns:
        for i, c in enumerate([c for c in f.calls()
                               if re.search(r"Option::<T>::unwrap_or(_default)?$", c.callee or "")], 1):
            names = f.back_slice_calls(c.args[0])
            srch = [nm for nm in names if re.search(r"<impl str>::(find|rfind)$|Iterator::position$",
                                                   nm)]
            if not srch:
                continue
            n += 1
            ctx.bad("C07.d", "%s/unwrap_or#%d" % (f.path, i), c.span,
                    "the not-found result of %s is replaced by %s, a legal position: callers "
                    "cannot tell `not found` from `found there`"
                    % (srch[0].rsplit("::", 1)[-1], f.describe(c.args[1]) if len(c.args) > 1
                       else "the default"))
    if cr is not None:
        ctx.ok("C07.d", "sentinel-sites", "", "%d search results folded into a legal value" % n)


def rule_e(ctx, cr):
    def codes_under(f):
        return {c for _b, c, _s in f.error_codes()}
    asc = cr.need_fn("mach::function::Function::asc")
    ctx.check("IllegalFunctionCall" in codes_under(asc), "C07.e", "asc/empty", asc.span,
              "ASC(\"\") is an ILLEGAL FUNCTION CALL")
    st = cr.need_fn("mach::function::Function::string")
    ctx.check({"IllegalFunctionCall", "Overflow"} <= codes_under(st), "C07.e", "string/errors",
              st.span, "STRING$ maps empty string / out of range to the documented errors")
    ch = cr.need_fn("mach::function::Function::chr")
    ctx.check("Overflow" in codes_under(ch), "C07.e", "chr/overflow", ch.span,
              "CHR$ of an invalid code is OVERFLOW")
    for path in ("mach::function::Function::mid", "mach::function::Function::instr",
                 "mach::runtime::Runtime::letmid"):
        f = cr.need_fn(path)
        ctx.touch(f)
        ok = False
        for b, code, span in f.error_codes():
            for op, l, r, truth in f.cmp_conds_at(b):
                rd = f.describe(r)
                if (op, truth, rd) in (("Eq", True, "const:0"), ("Le", True, "const:0"),
                                       ("Lt", True, "const:1"), ("Gt", False, "const:0"),
                                       ("Ge", False, "const:1")):
                    ok = True
        ctx.check(ok, "C07.e", "%s/position-zero" % path, f.span,
                  "position 0 is rejected with an error",
                  "position 0 is no longer rejected in %s" % path.rsplit("::", 1)[-1])


def rule_i(ctx, cr):
    f = cr.need_fn("mach::runtime::Runtime::letmid")
    ctx.touch(f)
    pops = [c for c in f.calls() if re.search(r"Stack<T>::pop$", c.name)]
    errs = [(b, code, sp) for b, code, sp in f.error_codes()]
    if not (len(pops) == 4 and errs):
        ctx.notes.append("C07.i not decided: letmid no longer takes its four operands with four "
                         "pop() calls plus an explicit validation error (%d pops, %d errors)"
                         % (len(pops), len(errs)))
        return
    for n, (b, code, sp) in enumerate(errs, 1):
        dom = [c for c in pops if f.dominates(c.bb, b) and c.bb != b]
        ctx.check(len(dom) == 3, "C07.i", "letmid/error#%d/leaves-target" % n, sp,
                  "%s is raised after 3 of the 4 pops: the target string is still on the stack"
                  % code,
                  "%s is raised after %d of the 4 operand pops: the entry left on top of the "
                  "stack is not the target string, and the store that follows (CONT after the "
                  "error) assigns it - a refused MID$ assignment replaces the whole target"
                  % (code, len(dom)))


def rule_f(ctx, cr):
    f = cr.need_fn("mach::function::Function::mid")
    ctx.touch(f)
    n = 0
    for b, i, st in f.aggregates("mach::val::Val", "String"):
        n += 1
        d = f.describe(st["rv"]["ops"][0])
        sliced = "ops::Index" in d and "Into<U>>::into" in d
        unsliced_input = "TryFrom<mach::val::Val>>::try_from" in d and not sliced
        ctx.check(not unsliced_input, "C07.f", "mid/result#%d" % n, st["span"],
                  "a slice of the argument" if sliced else "a constant / derived string",
                  "MID$ returns its whole argument on this path (the `position not found` arm of "
                  "the start lookup): MID$(\"ABC\",4) gives \"ABC\" instead of \"\"")
    ctx.floor("C07.f", "strings returned by Function::mid", n, 4)


SIGNED_CAST_OK = {
    "<mach::stack::Stack<mach::val::Val> as mach::runtime::RuntimeStackTrait<mach::val::Val>>"
    "::pop_vec#1": "argument count emitted by the code generator (Literal pushed by codegen)",
    "mach::function::Function::asc#1": "i16::max_value() constant",
    "mach::runtime::Runtime::def#1": "arity literal emitted by push_def_fn",
    "mach::runtime::Runtime::do_input#1": "variable count literal emitted by Generator::input",
}


def rule_g(ctx, cr):
    n = 0
    for p, f in sorted(cr.fns.items()):
        if not (p.startswith("mach::function::") or p.startswith("mach::runtime::")
                or p.startswith("<mach::stack::") or p.startswith("mach::var::")
                or re.match(r"^<(u8|u16|u32|u64|usize) as std::convert::TryFrom<mach::val::Val>>", p)):
            continue
        k = 0
        for b, i, st in f.assigns():
            rv = st["rv"]
            if not (rv["k"] == "cast" and rv["kind"] == "IntToInt"
                    and rv["from"] in ("i8", "i16", "i32", "i64", "isize")
                    and rv["to"] in ("u8", "u16", "u32", "u64", "usize")):
                continue
            k += 1
            n += 1
            key = "%s#%d" % (p, k)
            ok = False
            why = ""
            v = f.value_of_operand(rv["op"])
            src = rv["op"]
            neg = v and v.get("k") == "rv" and v["rv"]["k"] == "unop" and v["rv"]["op"] == "Neg"
            if neg:
                src = v["rv"].get("o")
            for op, l, r, truth in f.cmp_conds_at(b):
                if src is None or not f.same_origin(l, src):
                    continue
                rd = f.describe(r)
                if rd not in ("const:0", "const:1", "const:-1"):
                    continue
                # the test must admit 0 and exclude every negative value
                admits0 = {("Ge", "const:0", True), ("Lt", "const:0", False), ("Gt", "const:-1", True),
                           ("Le", "const:-1", False)}
                positive = {("Gt", "const:0", True), ("Le", "const:0", False), ("Ge", "const:1", True),
                            ("Lt", "const:1", False)}
                conv = p.startswith("<")          # a conversion must accept 0; a use site may
                if not neg and ((op, rd, truth) in admits0 or
                                (not conv and (op, rd, truth) in positive)):
                    ok, why = True, "under a sign test"
                if neg and ((op == "Lt" and truth) or (op == "Ge" and not truth)):
                    ok, why = True, "negation of a value known to be negative"
            if not ok and key in SIGNED_CAST_OK:
                ok, why = True, SIGNED_CAST_OK[key]
            ctx.check(ok, "C07.g", "signed-cast/" + key, st["span"], why,
                      "`%s as %s` of a signed value with no sign test on the path: a negative "
                      "argument turns into a huge position/count instead of an error "
                      "(INSTR(-1,..) answers 0)" % (f.describe(rv["op"])[:60], rv["to"]))
    ctx.floor("C07.g", "signed->unsigned casts", n, 9)
    # the float arms of the same conversions: both range tests in a form NaN cannot pass (C08.c)
    from rules import c08, common
    k = 0
    for p, f in sorted(cr.fns.items()):
        if re.match(r"^<(u8|u16|u32|u64|usize) as std::convert::TryFrom<mach::val::Val>>", p):
            k += c08.rule_c(common.Proxy(ctx, "C07.g"), f)
    ctx.floor("C07.g", "float->unsigned casts in the count/position conversions", k, 3)
