"""C14 - RENUM preserves the program and rewrites every reference, or changes nothing.

Decides: the set of statements that carry line-number operands (derived from parser and code
generator) is fully covered by the RENUM visitor; the text splice uses byte offsets; sentinel
operands are not looked up; the numbering is injective (step 0 rejected); all error exits
precede the single store of the new listing. Does not decide behavioural identity."""
import re

from lib.mir import loc
from rules import common, tables

VISIT = "<lang::line::RenumVisitor<'a> as lang::ast::Visitor>::visit_statement"
LINE = "lang::line::RenumVisitor<'a>::line"
LN_PARSE = re.compile(r"BasicParser<'a>::(expect_line_number|maybe_line_number|"
                      r"expect_line_number_list|expect_line_number_range)$")
LN_GEN = re.compile(r"(Generator::expr_pop_line_number|"
                    r"<std::option::Option<u16> as std::convert::TryFrom<&mach::link::Link>>"
                    r"::try_from)$")
# operands of RENUM itself are numbering parameters, not references (and RENUM is refused
# inside a program): excluded with that reason
EXCLUDED = {"Renum": "numbering parameters of RENUM itself"}
MIN_CALLS = {"Delete": 2, "List": 2}
LOOPED = {"OnGoto", "OnGosub"}


def run(ctx):
    cr = ctx.lib
    ctx.rule("C14.a", "R = Statement variants built by a parser function that reads a line "
             "number AND compiled by a generator that pops a line-number operand, minus RENUM. "
             "Every member has an arm in RenumVisitor::visit_statement that hands its line-number "
             "field(s) to RenumVisitor::line (list operands inside a loop); IF's branches are "
             "visited by AcceptVisitor")
    ctx.rule("C14.b", "the range given to String::replace_range in Line::renum derives from "
             "char_indices() byte offsets, not from the character Column directly")
    ctx.rule("C14.c", "in RenumVisitor::line the f64->u16 cast and the push of a replacement are "
             "dominated by a lower bound test, an upper bound test and an empty-column test")
    ctx.rule("C14.d", "Listing::renum rejects step == 0 with an error (injective numbering)")
    ctx.rule("C14.e", "all-or-nothing: no error exit of Listing::renum is reachable after the "
             "single store to self.source; Runtime::renum converts its three operands and checks "
             "its two guards before calling Listing::renum")
    ctx.rule("C14.g", "every stored line goes through Line::renum: the map that becomes the new "
             "listing starts empty, is filled only by inserts of Line::renum results, and the "
             "loop feeding Line::renum iterates the whole listing (lines()/values()/iter(), not a "
             "sub-range): a kept line that references a renumbered line must be rewritten too")
    ctx.rule("C14.f", "lines below old-start keep their order: the `old_end >= new_start` "
             "rejection exists")
    ctx.rule("C14.h", "RENUM splices a replacement at every operand with a non-empty column, so "
             "each line number read from the source may give its column to one operand only: in "
             "expect_line_number_range (LIST/DELETE n[-m]) every Expression::Single either carries "
             "the column of its own maybe_line_number() token or a zero-width column (start..start); "
             "no token column flows into two operands")
    rule_a(ctx, cr)
    rule_b(ctx, cr)
    rule_c(ctx, cr)
    rule_def(ctx, cr)
    rule_h(ctx, cr)
    rule_no_fastpath(ctx, cr)
    rule_rewrites_when_any(ctx, cr)
    rule_renum_from(ctx, cr)
    ctx.rule("C14.i", "the columns RENUM splices at are the parser's columns, which advance by the "
             "character count of each token's LISTED text (shared with C19.b): a token measured "
             "differently from how it lists shifts every later operand of the line")
    from rules import c19

    class _P:
        def __init__(self, c):
            self.c = c

        def __getattr__(self, n):
            return getattr(self.c, n)

        def check(self, cond, rule, key, *a, **k):
            return self.c.check(cond, "C14.i", key, *a, **k)
    c19.rule_b(_P(ctx), cr)


def referencing_variants(ctx, cr):
    # parser side
    parse_side = set()
    for p, f in cr.fns.items():
        if not p.startswith("lang::ast::Statement::") or "{closure" in p:
            continue
        fam = cr.family(p)
        if not any(c.matches(LN_PARSE) for g in fam for c in g.calls()):
            continue
        if p.count("::") > 3:      # nested helper (e.g. renum::parse_start): folded into parent
            continue
        ctx.touch(f)
        for b, i, st in f.aggregates("lang::ast::Statement"):
            parse_side.add(st["rv"]["variant"])
    # generator side
    gen = cr.need_fn("mach::codegen::Generator::statement")
    ctx.touch(gen)
    disp = tables.dispatch_table(gen, tables.arg_place(gen, 3), callee_rx=r"Generator::")
    gen_side = set()
    for v, callees in disp.items():
        for callee in callees:
            g = cr.fn(callee)
            if g is None:
                continue
            if any(c.matches(LN_GEN) for c in g.calls()):
                gen_side.add(v)
    return parse_side, gen_side, disp


def rule_a(ctx, cr):
    parse_side, gen_side, disp = referencing_variants(ctx, cr)
    ctx.floor("C14.a", "statement variants dispatched by Generator::statement", len(disp), 39)
    r = (parse_side & gen_side) - set(EXCLUDED)
    ctx.floor("C14.a", "referencing statement variants", len(r), 8)
    ctx.notes.append("referencing variants R = %s (parser side %s, generator side %s)"
                     % (sorted(r), sorted(parse_side), sorted(gen_side)))
    vis = cr.need_fn(VISIT)
    ctx.touch(vis)
    place = tables.arg_place(vis, 2)
    line_calls = vis.calls_to(LINE)
    ctx.floor("C14.a", "calls to RenumVisitor::line", len(line_calls), 4)
    in_loop = set()
    for scc in vis.sccs():
        in_loop |= set(scc)
    per = {}
    for c in line_calls:
        vs = vis.variants_at(c.bb, place)
        if not vs:
            ctx.bad("C14.a", "visit_statement/line-call-outside-arm", c.span,
                    "a call to line() that is not under a Statement variant test")
            continue
        for v in vs:
            per.setdefault(v, []).append(c)
    for v in sorted(r):
        cs = per.get(v, [])
        need = MIN_CALLS.get(v, 1)
        if v in LOOPED:
            ok = any(c.bb in in_loop for c in cs)
            ctx.check(ok, "C14.a", "visit/%s" % v, vis.span,
                      "every element of %s's line-number list is passed to line()" % v,
                      "Statement::%s carries a list of line numbers but the RENUM visitor has no "
                      "arm iterating it: its targets keep their old numbers" % v)
        else:
            # distinct fields handed over
            fields = set()
            for c in cs:
                d = vis.describe(c.args[1])
                fields.add(d)
            ctx.check(len(cs) >= need and len(fields) >= need, "C14.a", "visit/%s" % v, vis.span,
                      "%d line-number operand(s) of %s are passed to line()" % (need, v),
                      "Statement::%s has %d line-number operand(s) but the RENUM visitor passes "
                      "%d to line(): references keep their old numbers" % (v, need, len(fields)))
    # IF is reached through accept(): AcceptVisitor for Statement visits both branch lists
    acc = cr.need_fn("<lang::ast::Statement as lang::ast::AcceptVisitor>::accept")
    ctx.touch(acc)
    p2 = tables.arg_place(acc, 1)
    loops_in_if = 0
    for scc in acc.sccs():
        for b in scc:
            c = acc.call_at(b)
            if c is not None and c.name == acc.path and "If" in (acc.variants_at(b, p2) or ()):
                loops_in_if += 1
    ctx.check(loops_in_if >= 2, "C14.a", "accept/If-branches", acc.span,
              "AcceptVisitor visits the statements of both THEN and ELSE branches (%d loops)"
              % loops_in_if,
              "AcceptVisitor for Statement::If iterates %d branch list(s); THEN/ELSE targets "
              "would not be renumbered" % loops_in_if)
    # every variant's accept arm ends in visit_statement (the call is unconditional)
    vcalls = [c for c in acc.calls() if c.callee and c.callee.endswith("Visitor::visit_statement")]
    allv = set(cr.variants("lang::ast::Statement"))
    ctx.check(len(vcalls) == 1 and all((acc.variants_at(c.bb, p2) or allv) == allv
                                       for c in vcalls),
              "C14.a", "accept/visit_statement-unconditional", acc.span,
              "visit_statement is called for every statement kind")


def rule_b(ctx, cr):
    f = cr.need_fn("lang::line::Line::renum")
    ctx.touch(f)
    cs = f.calls_matching(r"String::replace_range$")
    if not ctx.floor("C14.b", "replace_range calls in Line::renum", len(cs), 1):
        return
    for i, c in enumerate(cs, 1):
        names = f.back_slice_calls(c.args[1])
        ok = any("char_indices" in n for n in names)
        ctx.check(ok, "C14.b", "Line::renum/replace_range#%d/byte-offsets" % i, c.span,
                  "range ends come from char_indices() (bytes)",
                  "String::replace_range receives the character Column as a byte range: a "
                  "multi-byte character before the line number shifts or splits the splice")
    # the text that is spliced is the same text the columns refer to: Display of the tokens
    ctx.check(bool(f.calls_matching(r"lang::lex::lex$")), "C14.b", "Line::renum/relex", f.span,
              "the spliced text is re-lexed into the new line")


def rule_c(ctx, cr):
    f = cr.need_fn(LINE)
    ctx.touch(f)
    casts = [(b, st) for b, i, st in f.assigns()
             if st["rv"]["k"] == "cast" and st["rv"]["kind"] == "FloatToInt"]
    pushes = f.calls_matching(r"Vec::<T, A>::push$")
    ctx.floor("C14.c", "float->u16 casts in RenumVisitor::line", len(casts), 1)
    ctx.floor("C14.c", "replacement pushes in RenumVisitor::line", len(pushes), 1)

    def guards(bb):
        lo = hi = empty = False
        for c in f.conds_at(bb):
            if c[0] != "eq":
                continue
            d = str(c[1])
            if (" Lt const:0" in d and c[2] is False) or (" Ge const:0" in d and c[2] is True):
                lo = True
            if ("max_value()" in d or "const:65529" in d or "const:65535" in d) and \
                    ((" Gt " in d and c[2] is False) or (" Le " in d and c[2] is True)):
                hi = True
            if "is_empty(" in d and c[2] is False:
                empty = True
            if re.search(r"\.start Eq .*\.end|\.end Eq .*\.start", d) and c[2] is False:
                empty = True
            if re.search(r"\.start (Lt|Ne) .*\.end", d) and c[2] is True:
                empty = True
        return lo, hi, empty
    for i, (b, st) in enumerate(casts, 1):
        lo, hi, _e = guards(b)
        ctx.check(lo and hi, "C14.c", "line/cast#%d/range" % i, st["span"],
                  "cast to u16 is under lower and upper bound tests",
                  "f64->u16 cast lacks %s: -1 (RESTORE/RUN without operand) saturates to 0 and is "
                  "looked up as line 0" % ("a lower bound test" if not lo else "an upper bound test"))
    for i, c in enumerate(pushes, 1):
        lo, hi, e = guards(c.bb)
        ctx.check(e, "C14.c", "line/push#%d/empty-column" % i, c.span,
                  "zero-width (defaulted) operands are skipped",
                  "a zero-width column (default operand of LIST/DELETE, not present in the text) "
                  "can be recorded for replacement")


def rule_def(ctx, cr):
    f = cr.need_fn("mach::listing::Listing::renum")
    ctx.touch(f)
    # C14.d  the place where the listing is replaced is only reached with step != 0 (the error
    # test must stand before it, with this polarity: an inverted test leaves later error exits
    # under "step == 0 is false" too, so looking at the error exits alone is not enough)
    ok = False
    for sb, _st, _v in f.field_stores("source"):
        for c in f.conds_at(sb):
            m = re.match(r"^\(arg:4 (Eq|Ne|Gt|Ge|Lt|Le) const:(\d+)\)$", str(c[1]))
            if c[0] == "eq" and m and (m.group(1), m.group(2), c[2]) in common._NONEMPTY:
                ok = True
    ctx.check(ok, "C14.d", "Listing::renum/step-zero", f.span,
              "step == 0 is rejected with an error",
              "step 0 is accepted: every renumbered line maps to new-start and the program "
              "collapses to one line")
    # C14.e
    stores = f.field_stores("source")
    if ctx.check(len(stores) == 1, "C14.e", "Listing::renum/single-store", f.span,
                 "exactly one store to self.source (%d)" % len(stores)):
        sb = stores[0][0]
        after = f.reach_set(sb)
        late = [(b, code) for b, code, _s in f.error_codes() if b in after and b != sb]
        ctx.check(not late, "C14.e", "Listing::renum/no-error-after-store", stores[0][1]["span"],
                  "no error exit is reachable after the listing was replaced",
                  "error exits %s are reachable after self.source was replaced: RENUM can fail "
                  "half-done" % late)
    rule_g(ctx, cr, f)
    r = cr.need_fn("mach::runtime::Runtime::renum")
    ctx.touch(r)
    rc = r.calls_to("mach::listing::Listing::renum")
    if ctx.check(len(rc) == 1, "C14.e", "Runtime::renum/calls-listing-renum", r.span,
                 "one call to Listing::renum"):
        cb = rc[0].bb
        conv = [c for c in r.calls() if c.name.startswith("<u16 as std::convert::TryFrom")]
        ctx.check(len(conv) >= 3 and all(r.dominates(c.bb, cb) for c in conv), "C14.e",
                  "Runtime::renum/operands-converted-first", r.span,
                  "the three operand conversions dominate the renumbering")
        g1 = any(c[0] == "eq" and "entry_address" in str(c[1]) for c in r.conds_at(cb))
        g2 = any(c[0] == "eq" and "is_empty(" in str(c[1]) and "indirect_errors" in str(c[1])
                 for c in r.conds_at(cb))
        ctx.check(g1, "C14.e", "Runtime::renum/refused-inside-program", r.span,
                  "RENUM from inside a program is refused before anything changes")
        ctx.check(g2, "C14.e", "Runtime::renum/refused-with-compile-errors", r.span,
                  "RENUM of a program with compile errors is refused before anything changes")
    # C14.f
    okf = False
    for b, code, span in f.error_codes():
        for c in f.conds_at(b):
            if c[0] == "eq" and re.search(r"var:\w+ Ge arg:2", str(c[1])) and c[2] is True:
                okf = True
    ctx.check(okf, "C14.f", "Listing::renum/order-guard", f.span,
              "`old_end >= new_start` leads to an error",
              "the guard that keeps unrenumbered lines below the new numbers is gone or weakened")


def rule_g(ctx, cr, f):
    stores = f.field_stores("source")
    if len(stores) != 1:
        return
    b, st, v = stores[0]
    # the local holding the new map: first argument chain of Arc::from / Arc::new
    names = f.back_slice_calls(st["rv"]["op"]) if st["rv"]["k"] == "use" else set()
    ctors = [n for n in names if re.search(r"BTreeMap.*(default|new)$|Default::default$", n)]
    other = sorted(n.rsplit("::", 2)[-2] + "::" + n.rsplit("::", 1)[-1] for n in names
                   if re.search(r"(collect|from_iter|clone|range|extend|append|split_off)$", n))
    ctx.check(bool(ctors) and not other, "C14.g", "Listing::renum/new-map-starts-empty", st["span"],
              "the new listing is built from an empty map",
              "the new listing is seeded from %s instead of an empty map: those lines bypass "
              "Line::renum and keep stale references" % other)
    ins = [c for c in f.calls_matching(r"BTreeMap::<K, V, A>::insert$")]
    rn = f.calls_to("lang::line::Line::renum")
    ctx.check(len(rn) == 1, "C14.g", "Listing::renum/one-renum-call", f.span,
              "one call site of Line::renum")
    good = [c for c in ins if any("Line::renum" in n for n in f.back_slice_calls(c.args[2]))]
    ctx.check(bool(good) and len(good) == len(ins), "C14.g", "Listing::renum/inserts-renumbered",
              f.span, "every insert stores a Line::renum result (%d insert site(s))" % len(ins),
              "%d of %d inserts into the new listing store a line that did not go through "
              "Line::renum" % (len(ins) - len(good), len(ins)))
    if rn:
        names = f.back_slice_calls(rn[0].args[0])
        whole = any(re.search(r"(Listing::lines|BTreeMap::<K, V, A>::(values|iter))$", n)
                    for n in names)
        part = sorted(n for n in names if re.search(r"::(range|skip|skip_while|take|filter)$", n))
        ctx.check(whole and not part, "C14.g", "Listing::renum/iterates-whole-listing", rn[0].span,
                  "Line::renum is applied to every line of the listing",
                  "Line::renum is applied to a sub-range of the listing only (%s): lines outside "
                  "it keep references to old numbers" % (part or "no whole-listing iterator"))


def _column_roots(f, op, depth=0, seen=None):
    """where can the Range in `op` come from: {('tok', bb)} for a clone of self.col taken in
    block bb, {('empty',)} for Range{start: x, end: x}, {('other', text)} otherwise; follows
    copies, clones of locals and locals assigned on several paths"""
    from lib.mir import op_place
    seen = seen if seen is not None else set()
    if depth > 12:
        return {("other", "too deep")}
    v = f.value_of_operand(op)
    if v is None:
        return {("other", "?")}
    return _roots_of_value(f, v, depth, seen)


def _roots_of_value(f, v, depth, seen):
    from lib.mir import op_place
    k = v.get("k")
    if k == "call":
        c = v["call"]
        if c.name.endswith("Clone>::clone") or c.name.endswith("Clone::clone"):
            d = f.describe(c.args[0])
            if re.search(r"\(\*_1\)\.col$", d):
                return {("tok", c.bb)}
            p = op_place(c.args[0])
            if p is not None:
                rv = f.value_of_operand(c.args[0])
                if rv and rv.get("k") == "rv" and rv["rv"]["k"] == "ref":
                    pl = rv["rv"]["place"]
                    if not pl["proj"]:
                        return _roots_of_local(f, pl["local"], depth + 1, seen)
            return {("other", d[:60])}
        return {("other", c.name)}
    if k == "rv":
        rv = v["rv"]
        if rv["k"] == "aggregate" and rv.get("adt") == "std::ops::Range":
            a, b = rv["ops"]
            if f.same_origin(a, b) or f.describe(a) == f.describe(b):
                return {("empty",)}
            return {("other", "Range(%s,%s)" % (f.describe(a)[:30], f.describe(b)[:30]))}
        if rv["k"] == "use":
            return _column_roots(f, rv["op"], depth + 1, seen)
        return {("other", rv["k"])}
    if k == "multi":
        return _roots_of_local(f, v["local"], depth + 1, seen)
    return {("other", k)}


def _roots_of_local(f, l, depth, seen):
    if l in seen or depth > 12:
        return set()
    seen.add(l)
    out = set()
    for d in f.defs().get(l, []):
        if d[0] == "call":
            out |= _roots_of_value(f, {"k": "call", "call": d[2]}, depth, seen)
        elif d[0] == "stmt":
            out |= _roots_of_value(f, {"k": "rv", "rv": d[3], "bb": d[1], "idx": d[2]}, depth, seen)
        elif d[0] == "partial":
            continue
        else:
            out.add(("other", d[0]))
    return out


def rule_renum_from(ctx, cr):
    """Listing::renum renumbers exactly the lines with number >= old_start"""
    f = cr.need_fn("mach::listing::Listing::renum")
    ins = [c for c in f.calls_matching(r"HashMap::<K, V, S, A>::insert$")]
    ok = False
    seen = []
    for c in ins:
        for op, l, r, truth in f.cmp_conds_at(c.bb):
            if f.describe(r) == "arg:3":          # old_start
                seen.append((op, truth))
                if (op, truth) in (("Ge", True), ("Lt", False)):
                    ok = True
    ctx.check(ok, "C14.f", "renum/from-old-start-inclusive", f.span,
              "a line is given a new number when its number >= old-start",
              "the renumbering decision compares the line number with old-start by %s (expected "
              ">=): the line numbered exactly old-start keeps its number and its references "
              "while everything after it moves" % seen)


def rule_no_fastpath(ctx, cr):
    """Line::renum decides `nothing to rewrite` from the visitor's result, not from a look at tokens"""
    f = cr.need_fn("lang::line::Line::renum")
    ctx.touch(f)
    pr = f.calls_to("lang::parse::parse")
    if not ctx.check(len(pr) == 1, "C14.g", "Line::renum/parses", f.span, "the line is parsed once"):
        return
    rets = set(f.return_blocks())
    skipped = bool(f.reach_set(0, avoid={pr[0].bb}) & rets)
    ctx.check(not skipped, "C14.g", "Line::renum/always-parsed", pr[0].span,
              "every call parses the line and lets the visitor find the operands",
              "Line::renum can return before it has parsed the line (a token-level shortcut): "
              "operands the shortcut does not recognise - a line number above 32767 is a Single "
              "literal, not an Integer - keep their old number while their target is renumbered")


def rule_rewrites_when_any(ctx, cr):
    """the re-lex of the rewritten text may be skipped only when the visitor found nothing"""
    f = cr.need_fn("lang::line::Line::renum")
    lx = f.calls_to("lang::lex::lex")
    if not ctx.check(len(lx) == 1, "C14.g", "Line::renum/relexes", f.span,
                     "the rewritten text is lexed once"):
        return
    other = common.emptiness_conds(f, lx[0].bb)[1]
    ctx.check(not other, "C14.g", "Line::renum/rewrites-when-any", lx[0].span,
              "the rewrite is skipped only when the visitor collected no replacement",
              "the rewrite stands under a size test other than `not empty` (%s): lines with "
              "that many references keep their old targets" % [str(c[1])[:90] for c in other])


def rule_h(ctx, cr):
    f = cr.need_fn("lang::parse::BasicParser<'a>::expect_line_number_range")
    ctx.touch(f)
    mln = f.calls_to("lang::parse::BasicParser<'a>::maybe_line_number")
    aggs = list(f.aggregates("lang::ast::Expression", "Single"))
    if not ctx.check(len(mln) == 2 and len(aggs) >= 2, "C14.h", "range/shape", f.span,
                     "two optional line numbers, operands built as Expression::Single"):
        return
    use = {}
    odd = []
    for n, (b, i, st) in enumerate(aggs, 1):
        roots = _column_roots(f, st["rv"]["ops"][0])
        for r in roots:
            if r[0] == "tok":
                # which line-number token: the last maybe_line_number call that dominates the clone
                owner = [c for c in mln if f.dominates(c.bb, r[1])]
                owner = max(owner, key=lambda c: len(f.dominators().get(c.bb, ())), default=None)
                use.setdefault(owner.bb if owner else None, set()).add((b, i))
            elif r[0] == "other":
                odd.append((n, r[1]))
    ctx.check(not odd, "C14.h", "range/column-sources", f.span,
              "every operand column is a token column or start..start",
              "operand columns of unknown origin: %s" % odd)
    for c in mln:
        k = len(use.get(c.bb, ()))
        ctx.check(k <= 1, "C14.h", "range/token-column-used-once#%d" % (mln.index(c) + 1), c.span,
                  "the token's column is given to %d operand" % k,
                  "the column of one line-number token is attached to %d operands of the range: "
                  "the implied bound of `LIST n` / `DELETE n` is no longer zero-width, RENUM "
                  "treats it as a second reference and splices the new number in twice "
                  "(`LIST 10` becomes `LIST 100000`, or text after the operand is eaten)" % k)
    ctx.check(None not in use, "C14.h", "range/token-column-owner", f.span,
              "each token column is taken after its own maybe_line_number()")
