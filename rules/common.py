"""Helpers shared by rule modules."""
import hashlib
import json
import os
import subprocess
import tempfile

from lib import facts, mir, report

FIXTURE = os.path.join(facts.VERIF, "fixtures", "positive.rs")
_fx = {}


def fixture_crate():
    """The positive fixture compiled through the same driver (cached by content hash)."""
    if "c" in _fx:
        return _fx["c"]
    drv = facts.build_driver()
    h = hashlib.sha256(open(FIXTURE, "rb").read())
    h.update(open(drv, "rb").read())
    d = os.path.join(facts.CACHE, "fixture", h.hexdigest()[:20])
    out = os.path.join(d, "fixture.rlib.json")
    if not os.path.exists(out):
        os.makedirs(d, exist_ok=True)
        env = facts._env()
        env["LD_LIBRARY_PATH"] = facts._sysroot() + "/lib:" + env.get("LD_LIBRARY_PATH", "")
        env["BL_FACTS_DIR"] = d
        env["BL_FACTS_CRATES"] = "fixture"
        with tempfile.TemporaryDirectory() as td:
            p = subprocess.run([drv, "rustc", "--crate-name", "fixture", "--crate-type", "lib",
                                "--edition=2021", FIXTURE, "--emit=metadata", "--out-dir", td,
                                "-Zmir-opt-level=0", "-Awarnings", "-C", "debug-assertions=on",
                                "--sysroot", facts._sysroot()],
                               env=env, stdout=subprocess.PIPE, stderr=subprocess.STDOUT, text=True)
        if p.returncode != 0 or not os.path.exists(out):
            raise facts.ExtractError("fixture extraction failed:\n" + p.stdout[-3000:])
    with open(out) as f:
        _fx["c"] = mir.Crate(json.load(f))
    return _fx["c"]


class Collector(report.Ctx):
    def __init__(self):
        super().__init__("FIXTURE", "quick", None, None)


def selftest(ctx, rule_id, fn_names, detector):
    """run `detector(collector, fn)` over the named fixture functions; each must raise at
    least one violation of rule_id, else the rule has lost its teeth (fail closed)."""
    fx = fixture_crate()
    for name in fn_names:
        f = fx.fn(name)
        if f is None:
            ctx.bad(rule_id, "selftest/%s" % name, "fixtures/positive.rs", "fixture fn missing")
            continue
        col = Collector()
        col.tier = ctx.tier
        detector(col, f)
        fired = [ob for ob in col.obs if not ob.ok and ob.rule == rule_id]
        if fired:
            ctx.ok(rule_id, "selftest/%s" % name, "fixtures/positive.rs",
                   "rule fires on the positive fixture: %s" % fired[0].detail, trivial=True)
        else:
            ctx.bad(rule_id, "selftest/%s" % name, "fixtures/positive.rs",
                    "rule did not fire on the positive fixture (rule lost its teeth)")


def ordinal_keys():
    d = {}

    def nxt(tag):
        d[tag] = d.get(tag, 0) + 1
        return d[tag]
    return nxt


class Proxy:
    """lets one property re-use a rule function of another under its own rule id"""
    def __init__(self, ctx, rid):
        self._c = ctx
        self._rid = rid

    def __getattr__(self, n):
        return getattr(self._c, n)

    def rule(self, rid, text):
        pass

    def check(self, cond, rule, key, *a, **k):
        return self._c.check(cond, self._rid, key, *a, **k)

    def ok(self, rule, key, *a, **k):
        return self._c.ok(self._rid, key, *a, **k)

    def bad(self, rule, key, *a, **k):
        return self._c.bad(self._rid, key, *a, **k)

    def floor(self, rule, *a, **k):
        return self._c.floor(self._rid, *a, **k)

    def missing(self, rule, what):
        return self._c.missing(self._rid, what)


_LEN_RX = r"^&?call:[^()]*::len\("
_NONEMPTY = [  # (operator, constant, truth) spellings of "the collection is not empty"
    ("Eq", "0", False), ("Ne", "0", True), ("Gt", "0", True), ("Ge", "1", True),
    ("Lt", "1", False), ("Le", "0", False)]


def emptiness_conds(f, bb, about=None):
    """Splits the must-hold conditions at block bb that test a collection's size into
    (non-empty spellings, others). `about` restricts to conditions whose text contains it.
    Used for "the work is skipped only when there is nothing to do": the block that does the
    work may stand under `not empty` in any spelling, never under a different size test."""
    import re
    good, other = [], []
    for c in f.conds_at(bb):
        if c[0] != "eq":
            continue
        s = str(c[1])
        if about is not None and about not in s:
            continue
        if re.match(r"^call:[^()]*::is_empty\(", s):
            (good if c[2] is False else other).append(c)
            continue
        m = re.match(r"^\((.*) (Eq|Ne|Gt|Ge|Lt|Le) const:(\d+)\)$", s)
        if m and re.search(_LEN_RX, m.group(1)):
            (good if (m.group(2), m.group(3), c[2]) in _NONEMPTY else other).append(c)
    return good, other


def conjoined_case_tests(f, bb):
    """pairs of must-hold-true conditions at bb that test ONE value for the upper- and the
    lower-case form of one letter (`starts_with('H') && starts_with('h')`): never satisfiable,
    the two spellings are alternatives"""
    import re
    seen = {}
    out = []
    for c in f.conds_at(bb):
        if c[0] != "eq" or c[2] is not True:
            continue
        m = re.match(r"^(.*)const:'([A-Za-z])'(.*)$", str(c[1]))
        if not m:
            continue
        k = (m.group(1), m.group(2).lower(), m.group(3))
        if k in seen and seen[k] != m.group(2):
            out.append((seen[k], m.group(2)))
        seen[k] = m.group(2)
    return out


def dead_flags(f):
    """named bool locals of f that some branch tests but that are only ever assigned the literal
    false: (name, assigned values). The branch they guard is dead - the distinction the flag was
    introduced for is never made"""
    import re
    from lib.mir import op_const
    tested = set()
    for b in f.rpo():
        for c in f.conds_at(b):
            m = re.match(r"^var:(\w+)$", str(c[1])) if c[0] == "eq" else None
            if m:
                tested.add(m.group(1))
    out = []
    for name in sorted(tested):
        ls = f.locals_named(name)
        if not ls or f.local_ty(ls[0]) != "bool":
            continue
        vals = []
        for b, i, st in f.assigns():
            if st["place"]["local"] in ls and not st["place"]["proj"]:
                cv = op_const(st["rv"]["op"]) if st["rv"]["k"] == "use" else None
                vals.append(cv.get("bool") if cv else "computed")
        if vals and all(v is False for v in vals):
            out.append((name, vals))
    return out
