"""C02 - expressions evaluate per documented precedence, promotion and result types.

Decides the tables, not the values: precedence (code vs manual, three-way), associativity,
unary operators never folded into literals, the operator chain token -> AST -> opcode ->
handler, postfix operand order, the type-promotion lattice cell by cell, relational results,
integer-only operators, and typed store."""
import os
import re

from lib.mir import op_const, op_place
from rules import tables

OP = "lang::token::Operator"
EXPR = "lang::ast::Expression"
VAL = "mach::val::Val"

# the manual's 13 levels (frozen semantic table; also re-read from src/doc/chapter_1.rs)
MANUAL = {"Caret": 13, "Multiply": 11, "Divide": 11, "DivideInt": 10, "Modulo": 9, "Plus": 8,
          "Minus": 8, "Equal": 7, "NotEqual": 7, "Less": 7, "LessEqual": 7, "Greater": 7,
          "GreaterEqual": 7, "And": 5, "Or": 4, "Xor": 3, "Imp": 2, "Eqv": 1}
MANUAL_UNARY = {"Plus": 12, "Minus": 12, "Not": 6}
DOC_SPELL = {"^": "Caret", "*": "Multiply", "/": "Divide", "\\": "DivideInt", "%": "Modulo",
             "MOD": "Modulo", "+": "Plus", "-": "Minus", "=": "Equal", "<>": "NotEqual",
             "<": "Less", "<=": "LessEqual", ">": "Greater", ">=": "GreaterEqual", "NOT": "Not",
             "AND": "And", "OR": "Or", "XOR": "Xor", "IMP": "Imp", "EQV": "Eqv"}
# Operator -> (Expression variant, Opcode variant, handler)
CHAIN = {
    "Caret": ("Power", "Pow", "power"), "Multiply": ("Multiply", "Mul", "multiply"),
    "Divide": ("Divide", "Div", "divide"), "DivideInt": ("DivideInt", "DivInt", "divint"),
    "Modulo": ("Modulo", "Mod", "remainder"), "Plus": ("Add", "Add", "sum"),
    "Minus": ("Subtract", "Sub", "subtract"), "Equal": ("Equal", "Eq", "equal"),
    "NotEqual": ("NotEqual", "NotEq", "not_equal"), "Less": ("Less", "Lt", "less"),
    "LessEqual": ("LessEqual", "LtEq", "less_equal"), "Greater": ("Greater", "Gt", "greater"),
    "GreaterEqual": ("GreaterEqual", "GtEq", "greater_equal"), "And": ("And", "And", "and"),
    "Or": ("Or", "Or", "or"), "Xor": ("Xor", "Xor", "xor"), "Imp": ("Imp", "Imp", "imp"),
    "Eqv": ("Eqv", "Eqv", "eqv"),
}
UNARY_CHAIN = {"Negation": ("Neg", "negate"), "Not": ("Not", "not")}
NUM = ("Integer", "Single", "Double")
RANK = {"Integer": 0, "Single": 1, "Double": 2}
TYOF = {"Integer": "i16", "Single": "f32", "Double": "f64"}


def lub(a, b):
    return a if RANK[a] >= RANK[b] else b


def run(ctx):
    cr = ctx.lib
    ctx.rule("C02.a", "binary_op_precedence / unary_op_precedence (extracted per Operator variant) "
             "equal the manual's 13 levels, and the table in src/doc/chapter_1.rs agrees (three-way)")
    ctx.rule("C02.b", "descend() leaves its operator loop on `op_prec <= precedence` (left "
             "associativity), recurses for the right operand with the operator's own level, for "
             "unary operators with the unary level, for parentheses with 0; the unary arms build "
             "only Negation / Not nodes around the recursive result (no folding into literals)")
    ctx.rule("C02.c", "the chain Operator -> Expression node -> Opcode -> Operation handler, composed "
             "from four extracted tables, equals the frozen 18+2 row semantic table; relational "
             "wrappers call the right comparator with the right operand order and return -1 / 0")
    ctx.rule("C02.d", "binary_expression pops rhs then lhs and appends lhs code, rhs code, then "
             "the operator; unary_expression appends the operand then the operator")
    ctx.rule("C02.e", "promotion lattice: for power, multiply, divide, sum, subtract and every "
             "(L,R) in {Integer,Single,Double}^2 the constructed Val variant is lub(L,R) with the "
             "documented exceptions; every other operand pair raises TYPE MISMATCH; comparators "
             "compare in the lub type; \\ MOD AND OR XOR IMP EQV NOT convert both operands with "
             "i16::try_from and build Integer")
    ctx.rule("C02.f", "typed store: suffix / DEFtype select insert_<type>; each insert_<type> passes "
             "only its own Val variant through, converts otherwise, and is the only caller of "
             "update_val")
    rule_a(ctx, cr)
    rule_b(ctx, cr)
    rule_c(ctx, cr)
    rule_d(ctx, cr)
    rule_e(ctx, cr)
    rule_f(ctx, cr)
    ctx.rule("C02.h", "built-in function table: every row NAME -> (Opcode, arity) of "
             "Function::opcode_and_arity names the opcode whose VM arm calls Function::<name> "
             "(name lower-cased, `$` dropped), and the arity equals what that arm takes from the "
             "stack (pop_1_push: 1, pop_2_push: 2, no pop: 0, pop_vec: the documented optional "
             "range); names and opcodes are unique")
    function_table(ctx, cr, "C02.h", lambda name: True)
    call_emission(ctx, cr, "C02.h")
    rule_sgn(ctx, cr)
    ctx.rule("C02.g", "conversion to Integer (assignment to a % variable, \\, MOD, logical "
             "operators, CINT, subscripts) floors and range-tests a Single in f32 and a Double in "
             "f64: no narrowing float conversion feeds the float->i16 cast (see C08.e)")
    ctx.rule("C02.i", "literal typing in BasicLexer::number: the decorators ! # % build Single / "
             "Double / Integer, more than 7 digits builds a Double, an undecorated Integer needs "
             "parse::<i16>() to succeed, and every boolean flag the function tests (exponent "
             "seen, decimal point seen) can actually become true")
    rule_i(ctx, cr)
    from rules import c08

    class _P:
        def __init__(self, c):
            self.c = c

        def __getattr__(self, n):
            return getattr(self.c, n)

        def check(self, cond, rule, key, *a, **k):
            return self.c.check(cond, "C02.g", key, *a, **k)
    conv = cr.need_fn("<i16 as std::convert::TryFrom<mach::val::Val>>::try_from")
    ctx.touch(conv)
    ctx.floor("C02.g", "float->i16 casts in the Val->Integer conversion", c08.rule_e(_P(ctx), conv), 2)


def rule_i(ctx, cr):
    f = cr.need_fn("lang::lex::BasicLexer::number")
    ctx.touch(f)
    LIT = "lang::token::Literal"
    want = {"!": "Single", "#": "Double", "%": "Integer"}
    seen = {}
    by_digits = False
    int_parsed = None
    pos7 = {("Gt", "7", True), ("Ge", "8", True), ("Le", "7", False), ("Lt", "8", False)}
    for b, i, st in f.aggregates(LIT):
        v = st["rv"]["variant"]
        suffix = None
        for c in f.conds_at(b):
            if c[0] != "eq":
                continue
            m = re.match(r"^\(var:\w+ Eq const:'([!#%])'\)$", str(c[1]))
            if m and c[2] is True:
                suffix = m.group(1)
            m = re.match(r"^\(var:\w+ (Gt|Ge|Le|Lt) const:(\d+)\)$", str(c[1]))
            if m and v == "Double":
                if (m.group(1), m.group(2), c[2]) in pos7:
                    by_digits = True
                else:
                    ctx.bad("C02.i", "number/double-threshold", st["span"],
                            "an undecorated literal becomes a Double under `%s` = %s (documented: "
                            "more than 7 digits)" % (c[1], c[2]))
        if suffix:
            seen[suffix] = v
        elif v == "Integer":
            int_parsed = any(c[0] == "eq" and c[2] is True and "Result::<T, E>::is_ok" in str(c[1])
                             and "::parse" in str(c[1]) for c in f.conds_at(b))
    for ch, v in sorted(want.items()):
        ctx.check(seen.get(ch) == v, "C02.i", "number/decorator/%s" % ch, f.span,
                  "`%s` builds Literal::%s" % (ch, v),
                  "a literal decorated with %s is typed %s (documented: %s)" % (ch, seen.get(ch), v))
    ctx.check(by_digits, "C02.i", "number/more-than-7-digits-is-double", f.span,
              "Literal::Double is built when the digit count exceeds 7")
    ctx.check(int_parsed is True, "C02.i", "number/integer-must-parse-as-i16", f.span,
              "an undecorated Literal::Integer is built only when parse::<i16>() succeeds",
              "an undecorated literal is typed Integer without the i16 range test")
    # flags
    tested = set()
    for b in f.rpo():
        for c in f.conds_at(b):
            m = re.match(r"^var:(\w+)$", str(c[1])) if c[0] == "eq" else None
            if m:
                tested.add(m.group(1))
    for name in sorted(tested):
        ls = f.locals_named(name)
        if not ls or f.local_ty(ls[0]) != "bool":
            continue
        vals = []
        for b, i, st in f.assigns():
            if st["place"]["local"] in ls and not st["place"]["proj"]:
                cv = op_const(st["rv"]["op"]) if st["rv"]["k"] == "use" else None
                vals.append(cv.get("bool") if cv else "computed")
        ctx.check(any(v is not False for v in vals), "C02.i", "number/flag-can-be-set#%d"
                  % (sorted(tested).index(name) + 1), f.span,
                  "flag `%s` is assigned %s" % (name, vals),
                  "the flag `%s` of BasicLexer::number is tested but only ever assigned false: "
                  "the digits of an exponent count towards the 7-digit rule and an E-literal "
                  "that fits 16 bits is typed Integer" % name)


def rule_a(ctx, cr):
    f = cr.need_fn("lang::ast::Expression::binary_op_precedence")
    u = cr.need_fn("lang::ast::Expression::unary_op_precedence")
    ctx.touch(f, u)
    bt = tables.const_returns_by_variant(f, tables.arg_place(f, 1), OP)
    ut = tables.const_returns_by_variant(u, tables.arg_place(u, 1), OP)
    ctx.floor("C02.a", "binary precedence rows", len(bt), 18)
    for v in cr.variants(OP):
        got = bt.get(v, set())
        want = MANUAL.get(v, 0)
        ctx.check(got == {want}, "C02.a", "binary/%s" % v, f.span, "level %s" % want,
                  "Operator::%s has binary precedence %s, the manual says %s"
                  % (v, sorted(got), want))
        gotu = ut.get(v, set())
        wantu = MANUAL_UNARY.get(v, 0)
        ctx.check(gotu == {wantu}, "C02.a", "unary/%s" % v, u.span, "level %s" % wantu,
                  "Operator::%s has unary precedence %s, the manual says %s"
                  % (v, sorted(gotu), wantu))
    # the manual table itself
    doc = os.path.join(ctx.repo, "src", "doc", "chapter_1.rs")
    rows = {}
    try:
        for line in open(doc, encoding="utf-8"):
            m = re.match(r"^\|\s*(\d+)\s*\|([^|]*)\|([^|]*)\|\s*$", line)
            if m:
                lvl = int(m.group(1))
                unary = "nary" in m.group(3)
                for tok in m.group(2).split():
                    if tok in DOC_SPELL:
                        rows[(DOC_SPELL[tok], unary)] = lvl
    except OSError:
        pass
    if ctx.floor("C02.a", "manual precedence rows", len(rows), 20):
        for (v, unary), lvl in sorted(rows.items()):
            code = (ut if unary else bt).get(v, set())
            ctx.check(code == {lvl}, "C02.a", "manual/%s%s" % ("unary-" if unary else "", v), "",
                      "manual level %d = code" % lvl,
                      "the manual lists %s%s at level %d, the parser uses %s"
                      % ("unary " if unary else "", v, lvl, sorted(code)))


def rule_b(ctx, cr):
    d = cr.need_fn("lang::ast::Expression::expect::descend")
    ctx.touch(d)
    # loop exit comparison
    cmps = []
    for b, i, st in d.assigns():
        rv = st["rv"]
        if rv["k"] == "binop" and rv["op"] in ("Le", "Lt", "Ge", "Gt") and rv["lty"] == "usize":
            ld, rd = d.describe(rv["l"]), d.describe(rv["r"])
            if "binary_op_precedence" in ld and rd == "arg:3":
                cmps.append((rv["op"], st["span"]))
            elif "binary_op_precedence" in rd and ld == "arg:3":
                cmps.append(({"Le": "Ge", "Lt": "Gt", "Ge": "Le", "Gt": "Lt"}[rv["op"]], st["span"]))
    ctx.check(len(cmps) == 1 and cmps[0][0] == "Le", "C02.b", "descend/loop-exit", d.span,
              "loop exits on op_prec <= precedence",
              "the operator loop compares op_prec with precedence using %s (expected one `<=`): "
              "operators of equal precedence would associate to the right"
              % [c[0] for c in cmps])
    # recursive calls and their precedence argument
    rec = d.calls_to(d.path)
    kinds = {}
    for c in rec:
        a = d.describe(c.args[2])
        if "binary_op_precedence" in a:
            kinds.setdefault("binary", []).append(c)
        elif "unary_op_precedence" in a:
            kinds.setdefault("unary", []).append(c)
        elif a == "const:0":
            kinds.setdefault("paren", []).append(c)
        else:
            kinds.setdefault("other:" + a[:40], []).append(c)
    ctx.check(len(kinds.get("binary", [])) == 1, "C02.b", "descend/rhs-level", d.span,
              "the right operand is parsed at the operator's own level")
    ctx.check(len(kinds.get("unary", [])) == 3, "C02.b", "descend/unary-level", d.span,
              "the three unary operators recurse with their unary level (%d)"
              % len(kinds.get("unary", [])))
    ctx.check(len(kinds.get("paren", [])) == 1, "C02.b", "descend/paren-level", d.span,
              "a parenthesised sub-expression restarts at level 0")
    other = [k for k in kinds if k.startswith("other:")]
    ctx.check(not other, "C02.b", "descend/no-other-levels", d.span, "no other precedence argument",
              "descend recurses with an unexpected precedence argument: %s" % other)
    # which Expression nodes may be built in the unary arms
    # the token matched first is the result of parse.next(): find variant facts Operator::X on it
    built = {}
    for b, i, st in d.aggregates(EXPR):
        for c in d.conds_at(b):
            if c[0] == "variant" and c[2] == OP and c[3] in ("Minus", "Plus", "Not") \
                    and "peek" not in d._expand_root(c[1], 0):
                built.setdefault(c[3], set()).add(st["rv"]["variant"])
    ctx.check(built.get("Minus") == {"Negation"}, "C02.b", "descend/unary-minus-node", d.span,
              "unary minus builds only Expression::Negation",
              "the unary-minus arm builds %s: folding the sign into a literal lets a following "
              "higher-precedence operator (^) bind to the negated constant"
              % sorted(built.get("Minus", [])))
    ctx.check(built.get("Not") == {"Not"}, "C02.b", "descend/unary-not-node", d.span,
              "NOT builds only Expression::Not", "the NOT arm builds %s" % sorted(built.get("Not", [])))
    ctx.check(not built.get("Plus"), "C02.b", "descend/unary-plus-node", d.span,
              "unary plus builds no node of its own")


def handler_table(cr):
    lp = cr.need_fn("mach::runtime::Runtime::execute_loop")
    h = {}
    for c in lp.calls():
        if c.name.endswith("::pop_1_push") or c.name.endswith("::pop_2_push"):
            v = None
            for cond in lp.conds_at(c.bb):
                if cond[0] == "variant" and cond[2] == "mach::opcode::Opcode":
                    v = cond[3]
            fv = lp.value_of_operand(c.args[1])
            h[v] = (c.name.rsplit("::", 1)[1], (fv or {}).get("fn_def"))
    return h


def rule_c(ctx, cr):
    bo = cr.need_fn("lang::ast::Expression::binary_op")
    ge = cr.need_fn("mach::codegen::Generator::expression")
    ctx.touch(bo, ge, "mach::runtime::Runtime::execute_loop")
    t1 = tables.aggregates_by_variant(bo, tables.arg_place(bo, 2), OP, EXPR)
    t2 = {}
    for c in ge.calls():
        if c.name.endswith("binary_expression") or c.name.endswith("unary_expression"):
            vs = ge.variants_at(c.bb, tables.arg_place(ge, 3))
            sv = ge.stored_variant(ge.value_of_operand(c.args[2]))
            if vs and len(vs) == 1 and sv:
                t2[next(iter(vs))] = (c.name.rsplit("::", 1)[1], sv[1])
    t3 = handler_table(cr)
    ctx.floor("C02.c", "Operator->Expression rows", len(t1), 18)
    ctx.floor("C02.c", "Expression->Opcode rows", len(t2), 20)
    ctx.floor("C02.c", "Opcode->handler rows", len(t3), 40)
    for o, (ev, ov, hn) in sorted(CHAIN.items()):
        e = t1.get(o, set())
        g = t2.get(ev)
        h = t3.get(ov)
        want_h = "mach::operation::Operation::" + hn
        ok = e == {ev} and g == ("binary_expression", ov) and h == ("pop_2_push", want_h)
        ctx.check(ok, "C02.c", "chain/%s" % o, "", "%s -> %s -> %s -> %s" % (o, ev, ov, hn),
                  "operator chain for %s is %s -> %s -> %s (expected %s -> binary %s -> "
                  "pop_2_push %s)" % (o, sorted(e), g, h, ev, ov, hn))
    ctx.check(not t1.get("Not"), "C02.c", "chain/Not-is-not-binary", bo.span,
              "NOT has no binary node")
    for ev, (ov, hn) in sorted(UNARY_CHAIN.items()):
        g = t2.get(ev)
        h = t3.get(ov)
        ctx.check(g == ("unary_expression", ov) and
                  h == ("pop_1_push", "mach::operation::Operation::" + hn), "C02.c",
                  "chain/unary-%s" % ev, "", "%s -> %s -> %s" % (ev, ov, hn),
                  "unary chain for %s is %s -> %s" % (ev, g, h))
    # relational wrappers
    wr = {"less": ("less_bool", False), "greater": ("less_bool", True),
          "less_equal": ("less_equal_bool", False), "greater_equal": ("less_equal_bool", True),
          "equal": ("equal_bool", False), "not_equal": ("equal_bool", False)}
    for name, (cmpf, swapped) in sorted(wr.items()):
        f = cr.need_fn("mach::operation::Operation::" + name)
        ctx.touch(f)
        cs = f.calls_to("mach::operation::Operation::" + cmpf)
        ok = len(cs) == 1
        if ok:
            a0, a1 = f.describe(cs[0].args[0]), f.describe(cs[0].args[1])
            ok = (a0, a1) == (("arg:2", "arg:1") if swapped else ("arg:1", "arg:2"))
        ctx.check(ok, "C02.c", "relational/%s/comparator" % name, f.span,
                  "%s(%s)" % (cmpf, "rhs, lhs" if swapped else "lhs, rhs"),
                  "%s does not call %s(%s)" % (name, cmpf, "rhs, lhs" if swapped else "lhs, rhs"))
        # result constants
        res = {}
        for b, i, st in f.aggregates(VAL, "Integer"):
            cv = f.const_of_operand(st["rv"]["ops"][0])
            truth = None
            for op, l, r, t in []:
                pass
            for c in f.conds_at(b):
                if c[0] == "variant" and c[3] == "Continue":
                    continue
                if c[0] == "eq" and isinstance(c[2], bool):
                    truth = c[2]
            res[truth] = cv
        want = {True: 0, False: -1} if name == "not_equal" else {True: -1, False: 0}
        ctx.check(res == want, "C02.c", "relational/%s/values" % name, f.span,
                  "true -> %s, false -> %s" % (want[True], want[False]),
                  "%s returns %s (expected true -> %s, false -> %s): relational results must be "
                  "exactly -1 or 0" % (name, res, want[True], want[False]))


def rule_d(ctx, cr):
    f = cr.need_fn("mach::codegen::Generator::expression::binary_expression")
    ctx.touch(f)
    pops = f.calls_to("mach::stack::Stack<T>::pop")
    apps = f.calls_to("mach::link::Link::append")
    push = f.calls_to("mach::link::Link::push")
    ok = len(pops) == 2 and len(apps) == 2 and len(push) == 1
    if ok:
        p_first = pops[0] if f.dominates(pops[0].bb, pops[1].bb) else pops[1]
        p_second = pops[1] if p_first is pops[0] else pops[0]
        a_first = apps[0] if f.dominates(apps[0].bb, apps[1].bb) else apps[1]
        a_second = apps[1] if a_first is apps[0] else apps[0]

        def feeds(pop, app):
            return _root_bb(f, app.args[1]) == pop.bb
        ok = (feeds(p_second, a_first) and feeds(p_first, a_second)
              and f.dominates(a_second.bb, push[0].bb))
    ctx.check(ok, "C02.d", "binary_expression/order", f.span,
              "pop rhs, pop lhs, append lhs, append rhs, push operator",
              "binary_expression no longer emits lhs code, rhs code, operator in that order: "
              "non-commutative operators get their operands swapped")
    u = cr.need_fn("mach::codegen::Generator::expression::unary_expression")
    ctx.touch(u)
    ap = u.calls_to("mach::link::Link::append")
    pu = u.calls_to("mach::link::Link::push")
    ctx.check(len(ap) == 1 and len(pu) == 1 and u.dominates(ap[0].bb, pu[0].bb), "C02.d",
              "unary_expression/order", u.span, "append operand, push operator")


def _root_bb(f, op, depth=0):
    """block of the Stack::pop call an operand ultimately comes from (through `?`)"""
    v = f.value_of_operand(op)
    seen = 0
    while v is not None and seen < 12:
        seen += 1
        if v["k"] == "call":
            c = v["call"]
            if (c.callee or "").endswith("Try::branch"):
                v = f.value_of_operand(c.args[0])
                continue
            return c.bb
        if v["k"] == "place":
            v = f.value_of_local(v["place"]["local"])
            continue
        if v["k"] == "multi":
            # a user binding assigned once per path
            ds = [d for d in v["defs"] if d[0] == "stmt"]
            if len(ds) == 1 and ds[0][3]["k"] == "use":
                v = f.value_of_operand(ds[0][3]["op"])
                continue
            return None
        if v["k"] == "rv" and v["rv"]["k"] == "use":
            v = f.value_of_operand(v["rv"]["op"])
            continue
        return None
    return None


def rule_e(ctx, cr):
    exceptions = {("divide", "Integer", "Integer"): {"Single"},
                  ("power", "Integer", "Integer"): {"Integer", "Single"}}
    n = 0
    for name in ("power", "multiply", "divide", "sum", "subtract"):
        f = cr.need_fn("mach::operation::Operation::" + name)
        ctx.touch(f)
        cells = {}
        for b, i, st in f.aggregates(VAL):
            l = f.variants_at(b, "_1")
            r = f.variants_at(b, "_2")
            if l and r and len(l) == 1 and len(r) == 1:
                cells.setdefault((next(iter(l)), next(iter(r))), set()).add(st["rv"]["variant"])
        # a constructor handed to a combinator (`checked_add(r).map(Integer)`) builds that variant
        for c in f.calls():
            for a in c.args:
                v = f.value_of_operand(a)
                m = re.match(r"^mach::val::Val::(\w+)::\{Ctor#0\}$", (v or {}).get("fn_def", "") or "")
                if m:
                    l = f.variants_at(c.bb, "_1")
                    r = f.variants_at(c.bb, "_2")
                    if l and r and len(l) == 1 and len(r) == 1:
                        cells.setdefault((next(iter(l)), next(iter(r))), set()).add(m.group(1))
        if name == "power":
            # the Single result of Integer ^ Integer is for NEGATIVE exponents only
            neg = {("Ge", "0", False), ("Lt", "0", True), ("Gt", "-1", False), ("Le", "-1", True)}
            for b, i, st in f.aggregates(VAL):
                if st["rv"]["variant"] != "Single" or f.variants_at(b, "_1") != {"Integer"} \
                        or f.variants_at(b, "_2") != {"Integer"}:
                    continue
                tests = []
                for c in f.conds_at(b):
                    m = re.match(r"^\(place:\(_2 as Integer\)\.0 (\w+) const:(-?\d+)\)$", str(c[1]))
                    if c[0] == "eq" and m:
                        tests.append((m.group(1), m.group(2), c[2]))
                if not tests:
                    ctx.notes.append("power: Integer^Integer Single result under no exponent test")
                    continue
                ctx.check(all(t in neg for t in tests), "C02.e", "power/Integer,Integer/single-only-"
                          "for-negative-exponent", st["span"],
                          "the Single path is taken for exponent < 0",
                          "Integer ^ Integer gives a Single under %s: a non-negative exponent "
                          "(X^0) no longer yields an Integer" % tests)
        for L in NUM:
            for R in NUM:
                n += 1
                want = exceptions.get((name, L, R), {lub(L, R)})
                got = cells.get((L, R), set())
                ctx.check(got == want, "C02.e", "%s/%s,%s" % (name, L, R), f.span,
                          "result type %s" % sorted(want),
                          "%s of %s and %s builds %s (documented: %s)"
                          % (name, L, R, sorted(got), sorted(want)))
        if name == "sum":
            got = cells.get(("String", "String"), set())
            ctx.check(got == {"String"}, "C02.e", "sum/String,String", f.span,
                      "string concatenation builds a String")
        # every other pair: no value, TYPE MISMATCH
        for (L, R), got in sorted(cells.items()):
            if (L in NUM and R in NUM) or (name == "sum" and (L, R) == ("String", "String")):
                continue
            ctx.bad("C02.e", "%s/%s,%s/unexpected-value" % (name, L, R), f.span,
                    "%s of %s and %s builds a %s instead of raising TYPE MISMATCH"
                    % (name, L, R, sorted(got)))
        codes = {c for _b, c, _s in f.error_codes()}
        ctx.check("TypeMismatch" in codes, "C02.e", "%s/type-mismatch" % name, f.span,
                  "mismatched operand kinds raise TYPE MISMATCH")
    ctx.floor("C02.e", "promotion cells", n, 45)
    # comparators: compare in the lub type
    for name in ("less_bool", "less_equal_bool", "equal_bool"):
        f = cr.need_fn("mach::operation::Operation::" + name)
        ctx.touch(f)
        seen = {}
        for b, i, st in f.assigns():
            rv = st["rv"]
            if rv["k"] != "binop" or rv["op"] not in ("Lt", "Le", "Eq", "Sub"):
                continue
            l = f.variants_at(b, "_1")
            r = f.variants_at(b, "_2")
            if not (l and r and len(l) == 1 and len(r) == 1):
                continue
            L, R = next(iter(l)), next(iter(r))
            if L in NUM and R in NUM:
                seen.setdefault((L, R), set()).add((rv["lty"], rv["rty"]))
        for L in NUM:
            for R in NUM:
                want = TYOF[lub(L, R)]
                got = seen.get((L, R), set())
                ok = bool(got) and all(a == want and b2 == want for a, b2 in got)
                ctx.check(ok, "C02.e", "%s/%s,%s" % (name, L, R), f.span,
                          "compared as %s" % want,
                          "%s of %s and %s compares as %s (expected both operands widened to %s)"
                          % (name, L, R, sorted(got), want))
    # one comparison operator per comparator, in every cell (sibling agreement across the 9 cells)
    import collections
    want_ops = {"less_bool": {"Lt": 9}, "less_equal_bool": {"Le": 9},
                "equal_bool": {"Eq": 1, "Le": 8}}
    str_cmp = {"less_bool": "PartialOrd>::lt", "less_equal_bool": "PartialOrd>::le",
               "equal_bool": "PartialEq>::eq"}
    for name, want in want_ops.items():
        f = cr.need_fn("mach::operation::Operation::" + name)
        got = collections.Counter(st["rv"]["op"] for b, i, st in f.assigns()
                                  if st["rv"]["k"] == "binop"
                                  and st["rv"]["op"] in ("Lt", "Le", "Gt", "Ge", "Eq", "Ne"))
        sc = [c.name for c in f.calls() if "PartialOrd>::" in c.name or "PartialEq>::" in c.name]
        ok = dict(got) == want and len(sc) == 1 and sc[0].endswith(str_cmp[name])
        if name == "equal_bool":
            eps = [f.describe(st["rv"]["r"]) for b, i, st in f.assigns()
                   if st["rv"]["k"] == "binop" and st["rv"]["op"] == "Le"]
            ok = ok and all(re.match(r"^const:(1\.19209\d*e-07|2\.22044\d*e-16)$", e) for e in eps)
        ctx.check(ok, "C02.e", "%s/one-operator-in-every-cell" % name, f.span,
                  "every numeric cell compares with %s, strings with %s" % (sorted(want), str_cmp[name]),
                  "%s compares with %s (strings: %s) - expected %s in all nine numeric cells: for "
                  "one pair of operand types the relation is another one (e.g. `<=` behaving as "
                  "`<` for Integer against Double)" % (name, dict(got), sc, want))
    # integer-only operators
    for name, nargs in (("divint", 2), ("remainder", 2), ("and", 2), ("or", 2), ("xor", 2),
                        ("imp", 2), ("eqv", 2), ("not", 1)):
        f = cr.need_fn("mach::operation::Operation::" + name)
        ctx.touch(f)
        conv = [c for c in f.calls() if c.name == "<i16 as std::convert::TryFrom<mach::val::Val>>"
                "::try_from"]
        src = sorted(f.describe(c.args[0]) for c in conv)
        want = ["arg:1", "arg:2"] if nargs == 2 else ["arg:1"]
        built = {st["rv"]["variant"] for b, i, st in f.aggregates(VAL)}
        ctx.check(src == want and built == {"Integer"}, "C02.e", "%s/integer-only" % name, f.span,
                  "operands converted with i16::try_from, result Integer",
                  "%s converts %s and builds %s (expected i16::try_from on %s and an Integer)"
                  % (name, src, sorted(built), want))


def rule_f(ctx, cr):
    st = cr.need_fn("mach::var::Var::store")
    ctx.touch(st)
    suffix = {}
    deft = {}
    for c in st.calls():
        m = re.match(r"^mach::var::Var::insert_(\w+)$", c.name)
        if not m:
            continue
        ty = m.group(1)
        # suffix arms: a must-hold `ends_with(ch)` == True
        key = None
        for cond in st.conds_at(c.bb):
            src = st._cond_src.get(cond)
            if cond[0] == "eq" and cond[2] is True and src and src.get("k") == "call" and \
                    (src["call"].callee or "").endswith("::ends_with"):
                key = st.const_of_operand(src["call"].args[1])
        if key is not None:
            suffix[key] = ty
        else:
            for cond in st.conds_at(c.bb):
                if cond[0] == "variant" and cond[2] == "mach::var::VarType":
                    deft[cond[3]] = ty
    want_s = {"!": "single", "#": "double", "%": "integer", "$": "string"}
    for ch, ty in want_s.items():
        ctx.check(suffix.get(ch) == ty, "C02.f", "store/suffix/%s" % ch, st.span,
                  "'%s' stores through insert_%s" % (ch, ty),
                  "a variable with suffix %s is stored through insert_%s (expected insert_%s): it "
                  "would hold a value of another type" % (ch, suffix.get(ch), ty))
    want_d = {"Integer": "integer", "Single": "single", "Double": "double", "String": "string"}
    for v, ty in want_d.items():
        ctx.check(deft.get(v) == ty, "C02.f", "store/deftype/%s" % v, st.span,
                  "DEFtype %s stores through insert_%s" % (v, ty),
                  "DEFtype %s stores through insert_%s" % (v, deft.get(v)))
    for ty, vv, conv in (("integer", "Integer", "i16"), ("single", "Single", "f32"),
                         ("double", "Double", "f64"), ("string", "String", None)):
        f = cr.need_fn("mach::var::Var::insert_" + ty)
        ctx.touch(f)
        ups = f.calls_to("mach::var::Var::update_val")
        ok = bool(ups)
        detail = []
        for c in ups:
            vs = f.variants_at(c.bb, "_3") or f.variants_at(c.bb, "(*_3)")
            v = f.value_of_operand(c.args[2])
            sv = f.stored_variant(v)
            if vs == {vv}:
                detail.append("pass-through under Val::%s" % vv)
            elif sv == (VAL, vv) and conv:
                names = f.back_slice_calls(v["rv"]["ops"][0])
                if not any(("<%s as std::convert::TryFrom<mach::val::Val>>::try_from" % conv) in n
                           for n in names):
                    ok = False
                    detail.append("builds Val::%s without %s::try_from" % (vv, conv))
                else:
                    detail.append("converted with %s::try_from" % conv)
            else:
                ok = False
                detail.append("stores %s under %s" % (f.describe_value(v), vs))
        ctx.check(ok, "C02.f", "insert_%s/only-own-type" % ty, f.span, "; ".join(detail),
                  "insert_%s can store a value that is not a %s: %s" % (ty, vv, detail))
    callers = sorted(cr.callers_of("mach::var::Var::update_val"))
    ctx.check(all(re.match(r"^mach::var::Var::insert_\w+$", c) for c in callers) and
              len(callers) == 4, "C02.f", "update_val/callers", "",
              "update_val is only reachable through the four insert_* functions",
              "update_val is called from %s: a value can reach the variable map untyped" % callers)


VEC_ARITY = {"INSTR": (2, 3), "MID$": (2, 3), "POS": (0, 1), "RND": (0, 1)}


def function_rows(cr):
    f = cr.need_fn("mach::function::Function::opcode_and_arity")
    rows = []
    for b, i, st in f.aggregates("mach::opcode::Opcode"):
        name = None
        for c in f.conds_at(b):
            m = re.search(r"PartialEq for str>::eq\(arg:1,const:'([^']*)'\)", str(c[1])) \
                if c[0] == "eq" and c[2] is True else None
            if m:
                name = m.group(1)
        rng = None
        for c in f.calls_matching(r"RangeInclusive::<Idx>::new$"):
            if c.bb == b or f.dominates(b, c.bb) and f.variants_at(c.bb, "_0") is None and \
                    len([x for x in f.reachable() if f.dominates(b, x)]) < 6:
                lo, hi = f.const_of_operand(c.args[0]), f.const_of_operand(c.args[1])
                if isinstance(lo, int) and isinstance(hi, int) and rng is None:
                    rng = (lo, hi)
        rows.append((name, st["rv"]["variant"], rng, st["span"]))
    return f, rows


def function_table(ctx, cr, rid, want):
    from rules import c01
    f, rows = function_rows(cr)
    ctx.touch(f)
    _lp, now = c01.dispatch_now(cr)
    ctx.floor(rid, "rows of the built-in function table", len(rows), 33)
    names = [r[0] for r in rows]
    ops = [r[1] for r in rows]
    ctx.check(len(set(names)) == len(names) and len(set(ops)) == len(ops) and None not in names,
              rid, "functions/unique", f.span, "%d distinct names, %d distinct opcodes"
              % (len(set(names)), len(set(ops))),
              "the function table has duplicate or unreadable rows: %s"
              % sorted(str(n) for n in names if names.count(n) > 1 or n is None))
    for name, op, rng, span in rows:
        if name is None or not want(name):
            continue
        arm = now.get(op, [])
        h = [re.search(r"function::Function::(\w+)", a) for a in arm]
        h = [m.group(1) for m in h if m]
        expect = name.rstrip("$").lower()
        if op == "Inkey":
            ok_h = not arm          # handled inline: state change + Event::Inkey
        else:
            ok_h = h == [expect]
        ctx.check(ok_h, rid, "functions/%s/handler" % name, span,
                  "%s -> Opcode::%s -> Function::%s" % (name, op, expect),
                  "%s compiles to Opcode::%s, whose arm runs %s (expected Function::%s): the "
                  "name calls another function" % (name, op, h or arm, expect))
        if any("pop_1_push" in a for a in arm):
            ar = (1, 1)
        elif any("pop_2_push" in a for a in arm):
            ar = (2, 2)
        elif any("pop_vec" in a for a in arm):
            ar = VEC_ARITY.get(name)
        elif any(a.endswith("Stack<T>::pop") for a in arm):
            ar = (1, 1)
        else:
            ar = (0, 0)
        ctx.check(rng == ar, rid, "functions/%s/arity" % name, span,
                  "takes %s..=%s arguments" % (ar or ("?", "?")),
                  "%s is declared with %s arguments but its VM arm takes %s from the stack: a "
                  "call with the declared count under- or over-pops the value stack" % (name, rng, ar))


def rule_sgn(ctx, cr):
    """SGN: 0 for zero (either sign), then -1 / 1 by sign - the zero test comes first"""
    f = cr.need_fn("mach::function::Function::sgn")
    ctx.touch(f)
    n = 0
    bad = []
    for b, i, st in f.assigns():
        rv = st["rv"]
        if not (rv["k"] == "use" and rv["op"].get("k") == "const"
                and rv["op"]["const"].get("ty") == "i16"):
            continue
        val = rv["op"]["const"].get("s", "")
        cs = [(op, f.describe(r), t) for op, l, r, t in f.cmp_conds_at(b)]
        zero_known = [c for c in cs if c[0] == "Eq" and c[1] in ("const:0", "const:0.0")]
        n += 1
        if val.startswith("0"):
            ok = any(c[2] is True for c in zero_known)
        else:
            ok = any(c[2] is False for c in zero_known)
        if not ok:
            bad.append((val, cs))
    ctx.check(n == 9 and not bad, "C02.h", "sgn/zero-test-first", f.span,
              "each of the 9 results is produced with the `== 0` question already answered",
              "SGN produces %s without having tested the value against zero first: a negative "
              "zero (X=0:SGN(-X), FIX(-0.5)) is answered by its sign bit, -1, instead of 0" % bad)


def call_emission(ctx, cr, rid):
    """VarItem::push_as_expression: what a name followed by (args) compiles to"""
    f = cr.need_fn("mach::codegen::VarItem::push_as_expression")
    ctx.touch(f)
    pushes = []
    for c in f.calls_to("mach::link::Link::push"):
        sv = f.stored_variant(f.value_of_operand(c.args[1]))
        eqs = [(str(cc[1]), cc[2]) for cc in f.conds_at(c.bb) if cc[0] == "eq"]
        pushes.append((c, sv[1] if sv else "builtin-opcode", eqs))

    def under(eqs, needle, val):
        return any(needle in t and v is val for t, v in eqs)
    builtin = [p for p in pushes if p[1] == "builtin-opcode"]
    ok_b = len(builtin) == 2 and any(under(e, "RangeInclusive::<Idx>::contains(", True)
                                     for _c, _k, e in builtin)
    ctx.check(ok_b, rid, "call/builtin-arity-checked", f.span,
              "a built-in's opcode is emitted only when the argument count is inside its arity",
              "a built-in function's opcode is emitted without the `arity.contains(&len)` test: a "
              "call with the wrong number of arguments compiles and under- or over-pops the stack")
    codes = {c for _b, c, _s in f.error_codes()}
    ctx.check("IllegalFunctionCall" in codes, rid, "call/wrong-count-error", f.span,
              "a wrong argument count for a built-in is ILLEGAL FUNCTION CALL at compile time")
    lit = [p for p in pushes if p[1] == "Literal"]
    var_lit = [p for p in lit if under(p[2], "RangeInclusive::<Idx>::start(", True)
               and under(p[2], "::ne(", True)]
    ctx.check(len(var_lit) == 1, rid, "call/count-literal-iff-variable-arity", f.span,
              "the argument count is pushed for a built-in exactly when its arity is a range "
              "(those arms take their arguments with pop_vec)",
              "the count literal for built-ins is no longer tied to `arity.start() != "
              "arity.end()`: pop_vec arms would read an argument as the count, or fixed-arity "
              "arms would leave a count on the stack")
    fn = [p for p in pushes if p[1] == "Fn"]
    arr = [p for p in pushes if p[1] == "PushArr"]
    okf = len(fn) == 1 and under(fn[0][2], "starts_with(", True) and "const:'FN'" in str(fn[0][2]) \
        and len(arr) == 1 and under(arr[0][2], "starts_with(", False)
    ctx.check(okf, rid, "call/fn-vs-array", f.span,
              "NAME(args) is a user function call iff NAME starts with FN, otherwise an array read",
              "the FN prefix no longer separates user function calls from array reads")
    ctx.check(sum(1 for p in lit if under(p[2], "starts_with(", True)
                  or under(p[2], "starts_with(", False)) == 2, rid, "call/count-before-fn-and-array",
              f.span, "both Fn and PushArr are preceded by the argument/subscript count")
