"""Table extraction from MIR: match-arm tables keyed by resolved enum variant."""
import re

from lib.mir import Call, const_val, op_const


def arg_place(f, n):
    """canonical place string of *argument n (for `&self`-style args: `(*_n)`)"""
    ty = f.local_ty(n)
    return "(*_%d)" % n if ty.startswith("&") else "_%d" % n


def dispatch_table(f, place_s, adt=None, callee_rx=None):
    """{variant: set(callee names)} for calls made while `place_s` is known to be in exactly
    that variant (or in a set of variants: then the call is recorded for each)."""
    out = {}
    for c in f.calls():
        if callee_rx and not c.matches(callee_rx):
            continue
        vs = f.variants_at(c.bb, place_s, adt)
        if not vs:
            continue
        for v in vs:
            out.setdefault(v, set()).add(c.name)
    return out


def string_table(f, place_s, adt=None):
    """{variant: [string constants written/used]} from Arguments::from_str / format templates /
    plain str constants appearing in blocks where the variant is known."""
    out = {}
    for b in f.reachable():
        vs = f.variants_at(b, place_s, adt)
        if not vs or len(vs) != 1:
            continue
        v = next(iter(vs))
        for s in block_strings(f, b):
            out.setdefault(v, []).append(s)
    return out


def block_strings(f, b):
    res = []
    t = f.term(b)
    if t["k"] == "call":
        for a in t["args"]:
            c = op_const(a)
            if c is not None and "str" in c:
                res.append(c["str"])
            elif c is not None and "alloc_bytes" in c:
                res.append(decode_fmt_template(c["alloc_bytes"]))
            else:
                cv = f.value_of_operand(a)
                if cv and cv.get("k") == "const":
                    cc = cv["const"]
                    if "str" in cc:
                        res.append(cc["str"])
                    elif "alloc_bytes" in cc:
                        res.append(decode_fmt_template(cc["alloc_bytes"]))
    for st in f.blocks[b]["stmts"]:
        if st["k"] != "assign":
            continue
        rv = st["rv"]
        ops = []
        if rv["k"] == "use":
            ops = [rv["op"]]
        for o in ops:
            c = op_const(o)
            if c is not None and "alloc_bytes" in c:
                res.append(decode_fmt_template(c["alloc_bytes"]))
    return res


def decode_fmt_template(bs):
    """core::fmt's byte-encoded template: literal pieces are length-prefixed (len < 0x80),
    0xC0.. are placeholders, 0 terminates. Returns e.g. '&H{}'."""
    out = ""
    i = 0
    n = len(bs)
    while i < n:
        b = bs[i]
        if b == 0:
            break
        if b < 0x80:
            out += bytes(bs[i + 1:i + 1 + b]).decode("utf-8", "replace")
            i += 1 + b
        elif b == 0x80:
            ln = bs[i + 1] | (bs[i + 2] << 8)
            out += bytes(bs[i + 3:i + 3 + ln]).decode("utf-8", "replace")
            i += 3 + ln
        elif b >= 0xC0:
            out += "{}"
            i += 1
            # optional flags/width/precision/index bytes follow depending on bits
            flags = b & 0x3F
            if flags & 1:
                i += 4
            if flags & 2:
                i += 2
            if flags & 4:
                i += 2
            if flags & 8:
                i += 2
        else:
            i += 1
    return out


def aggregates_by_variant(f, place_s, adt, built_adt):
    """{variant of place: set(variants of built_adt constructed)}"""
    out = {}
    for b, i, st in f.aggregates(built_adt):
        vs = f.variants_at(b, place_s, adt)
        if not vs:
            continue
        for v in vs:
            out.setdefault(v, set()).add(st["rv"]["variant"])
    return out


def const_returns_by_variant(f, place_s, adt=None):
    """{variant: set(constants assigned/returned)} for functions like precedence tables: looks
    at constant ints used in aggregates (Ok(const)) or assigned to _0 in variant-known blocks"""
    out = {}
    for b, i, st in f.assigns():
        vs = f.variants_at(b, place_s, adt)
        if not vs:
            continue
        rv = st["rv"]
        consts = []
        if rv["k"] == "use":
            c = op_const(rv["op"])
            if c is not None and "int" in c:
                consts.append(c["int"])
            if c is not None and "bool" in c:
                consts.append(c["bool"])
        elif rv["k"] == "aggregate":
            for o in rv["ops"]:
                c = op_const(o)
                if c is not None and "int" in c:
                    consts.append(c["int"])
        for v in vs:
            for k in consts:
                out.setdefault(v, set()).add(k)
    return out
