"""C12 - RUN, CLEAR and NEW reset state completely.

Decides reset completeness over the state inventory: every field of the five state-holding
structs is classified; CLEAR writes every session field on every path; RUN is compiled as
Clear + Jump; NEW adds the listing; the recompile resets every program-class field.
Does not decide equality of runs with a fresh interpreter."""
from lib.mir import loc

STRUCTS = ["mach::runtime::Runtime", "mach::var::Var", "mach::program::Program",
           "mach::link::Link", "mach::listing::Listing"]

# class: session = must be reset by CLEAR; program = must be reset by NEW / recompile;
# exec = re-seated whenever a direct line is entered; ui/config = survives, with reason
INVENTORY = {
    "mach::runtime::Runtime": {
        "prompt": ("config", "UI prompt text chosen by the embedding program"),
        "listing": ("program", "the stored program: NEW clears it"),
        "dirty": ("program", "recompile flag: NEW sets it"),
        "program": ("program", "compiled code: rebuilt when dirty"),
        "pc": ("exec", "set from link() by enter_direct"),
        "tr": ("exec", "last traced line: reset by enter_direct"),
        "tron": ("ui", "tracing is toggled by the user (TRON/TROFF); NEW turns it off; the "
                       "property's list of session state does not include tracing"),
        "entry_address": ("exec", "set from link() by enter_direct"),
        "stack": ("session", "FOR/GOSUB frames and temporaries"),
        "vars": ("session", "variables, arrays, DEFtype table"),
        "state": ("exec", "VM state machine"),
        "cont": ("session", "continuation point"),
        "cont_pc": ("dead-with-cont", "only read by CONT after cont != Stopped was checked"),
        "print_col": ("ui", "cursor column: a property of the terminal, not of the session"),
        "rand": ("session", "RND state: reseeded by CLEAR"),
        "functions": ("session", "DEF FN table"),
    },
    "mach::var::Var": {"vars": ("session", ""), "dims": ("session", ""), "types": ("session", "")},
    "mach::program::Program": {
        "errors": ("program", ""), "indirect_errors": ("program", ""),
        "direct_address": ("program", ""), "line_number": ("program", ""), "link": ("program", ""),
    },
    "mach::link::Link": {
        "current_symbol": ("program", ""), "ops": ("program", ""), "data": ("program", ""),
        "data_pos": ("session", "READ pointer: rewound by CLEAR via restore_data(0)"),
        "direct_set": ("program", ""), "symbols": ("program", ""), "unlinked": ("program", ""),
        "whiles": ("taken-on-link", "mem::take in link_whiles on every link()"),
    },
    "mach::listing::Listing": {
        "source": ("program", ""), "indirect_errors": ("program", ""),
        "direct_errors": ("program", ""),
    },
}
CLEARERS = {"clear", "mach::var::Var::clear", "mach::stack::Stack<T>::clear",
            "mach::link::Link::clear", "mach::listing::Listing::clear"}


def resets(f, field, adt=None):
    """is `self.field` written (store) or cleared (x.clear()) on every path to a return?
    returns (ok, description)"""
    evs = []
    for b, st, v in f.field_stores(field):
        if adt and st["place"]["proj"][-1].get("adt") != adt:
            continue
        evs.append((b, "store %s" % f.describe_value(v)))
    for c in f.calls():
        last = (c.callee or "").rsplit("::", 1)[-1]
        if last in ("clear",) and c.args:
            d = f.describe(c.args[0])
            if d.endswith("." + field):
                evs.append((c.bb, "call %s" % c.name))
    rets = set(f.return_blocks())
    for b, how in evs:
        if not (f.reach_set(0, avoid={b}) & rets):
            return True, how
    # combination of events covering all paths
    if evs and not (f.reach_set(0, avoid={b for b, _ in evs}) & rets):
        return True, "; ".join(h for _b, h in evs)
    return False, "events: %s" % [h for _b, h in evs]


def run(ctx):
    cr = ctx.lib
    ctx.rule("C12.a", "every field of Runtime, Var, Program, Link, Listing (read from the type "
             "definitions) is classified in the state inventory; an unclassified field fails")
    ctx.rule("C12.b", "Runtime::clear writes or clears every session-class field on every path "
             "(stack, vars via Var::clear which writes all of its fields, functions, cont, rand, "
             "Link.data_pos via restore_data(0))")
    ctx.rule("C12.c", "RUN is compiled as Opcode::Clear followed by Jump (Link::push_run); RUN "
             "\"file\" goes through set_listing -> new_ -> clear; Opcode::Clear dispatches to "
             "Runtime::clear")
    ctx.rule("C12.d", "Runtime::new_ = clear + listing.clear() + dirty = true + tron = false + "
             "state = Stopped; Listing::clear writes all three of its fields")
    ctx.rule("C12.e", "Program::clear and Link::clear write every program-class field; "
             "Link.whiles is taken by link_whiles, which link() always calls")
    rule_a(ctx, cr)
    rule_b(ctx, cr)
    rule_c(ctx, cr)
    rule_d(ctx, cr)
    rule_e(ctx, cr)
    ctx.rule("C12.f", "what RUN and CLEAR only rewind must not be changed by the session: the data "
             "segment is written by the compilation of the stored program alone - a direct-mode "
             "line cannot add constants to it (see C04.e), so a later RUN reads what a fresh "
             "interpreter would read")
    from rules import c04, common
    c04.rule_e(common.Proxy(ctx, "C12.f"), cr)


def rule_a(ctx, cr):
    n = 0
    for s in STRUCTS:
        fields = cr.fields(s)
        inv = INVENTORY[s]
        for fl in fields:
            n += 1
            ctx.check(fl["name"] in inv, "C12.a", "%s.%s" % (s, fl["name"]), "",
                      "class %s %s" % inv.get(fl["name"], ("?", "")),
                      "field %s.%s: %s is not classified in the state inventory: nothing says "
                      "whether RUN/CLEAR/NEW must reset it" % (s, fl["name"], fl["ty"]))
        for k in inv:
            if k not in {fl["name"] for fl in fields}:
                ctx.notes.append("inventory row without a field: %s.%s" % (s, k))
    ctx.floor("C12.a", "state fields", n, 35)


def session_fields(s):
    return [k for k, (cls, _r) in INVENTORY[s].items() if cls == "session"]


def rule_b(ctx, cr):
    clr = cr.need_fn("mach::runtime::Runtime::clear")
    ctx.touch(clr)
    for fld in session_fields("mach::runtime::Runtime"):
        ok, how = resets(clr, fld)
        if not ok and fld == "vars":
            pass
        ctx.check(ok, "C12.b", "Runtime::clear/%s" % fld, clr.span, how,
                  "CLEAR/RUN does not reset Runtime.%s on every path (%s): state of an earlier "
                  "run leaks into the next one" % (fld, how))
    # data pointer
    rd = [c for c in clr.calls_to("mach::program::Program::restore_data")
          if clr.const_of_operand(c.args[1]) == 0]
    ctx.check(bool(rd) and all(clr.dominates(rd[0].bb, r) for r in clr.return_blocks()),
              "C12.b", "Runtime::clear/data_pos", clr.span,
              "restore_data(0) rewinds the READ pointer",
              "CLEAR/RUN does not rewind the DATA pointer with restore_data(0)")
    pr = cr.need_fn("mach::program::Program::restore_data")
    lr = cr.need_fn("mach::link::Link::restore_data")
    ctx.touch(pr, lr)
    ctx.check(bool(pr.calls_to("mach::link::Link::restore_data")), "C12.b",
              "Program::restore_data/forwards", pr.span, "forwards to Link::restore_data")
    st = lr.field_stores("data_pos")
    ctx.check(len(st) == 1 and lr.describe_value(st[0][2]).startswith("arg:"), "C12.b",
              "Link::restore_data/stores-arg", lr.span, "data_pos = addr")
    vc = cr.need_fn("mach::var::Var::clear")
    ctx.touch(vc)
    for fld in session_fields("mach::var::Var"):
        ok, how = resets(vc, fld)
        ctx.check(ok, "C12.b", "Var::clear/%s" % fld, vc.span, how,
                  "Var::clear does not reset Var.%s: CLEAR leaves %s behind" % (fld, fld))
    sc = cr.need_fn("mach::stack::Stack<T>::clear")
    ctx.check(bool(sc.calls_matching(r"Vec::<T, A>::clear$")), "C12.b", "Stack::clear/vec",
              sc.span, "Stack::clear clears the vector")


def rule_c(ctx, cr):
    pr = cr.need_fn("mach::link::Link::push_run")
    ctx.touch(pr)
    pushes = []
    for c in pr.calls_to("mach::stack::Stack<T>::push"):
        v = pr.value_of_operand(c.args[1])
        sv = pr.stored_variant(v)
        pushes.append((c, sv[1] if sv else None))
    kinds = [k for _c, k in pushes]
    ok = "Clear" in kinds and "Jump" in kinds
    if ok:
        cb = [c for c, k in pushes if k == "Clear"][0].bb
        jb = [c for c, k in pushes if k == "Jump"][0].bb
        ok = pr.dominates(cb, jb) and cb != jb
    ctx.check(ok, "C12.c", "Link::push_run/clear-then-jump", pr.span,
              "emits Opcode::Clear and then Opcode::Jump (%s)" % kinds,
              "RUN is no longer compiled as Clear followed by Jump (%s): a second RUN sees the "
              "state of the first" % kinds)
    gr = cr.need_fn("mach::codegen::Generator::run")
    ctx.touch(gr)
    ctx.check(len(gr.calls_to("mach::link::Link::push_run")) >= 2, "C12.c",
              "Generator::run/uses-push_run", gr.span, "RUN / RUN n go through push_run")
    lp = cr.need_fn("mach::runtime::Runtime::execute_loop")
    ctx.touch(lp)
    cl = lp.calls_to("mach::runtime::Runtime::clear")
    okd = False
    for c in cl:
        for cond in lp.conds_at(c.bb):
            if cond[0] == "variant" and cond[2] == "mach::opcode::Opcode" and cond[3] == "Clear":
                okd = True
    ctx.check(okd, "C12.c", "execute_loop/Clear-dispatch", lp.span,
              "Opcode::Clear runs Runtime::clear")
    from rules import c01
    try:
        sk, _n = c01.skipped_handlers(cr, only={"Clear"})
    except c01.MissingAnchorLike as e:
        ctx.missing("C12.c", str(e))
        sk = []
    ctx.check(not sk, "C12.c", "execute_loop/Clear-unconditional", lp.span,
              "Runtime::clear runs on every path through the Clear arm",
              "Opcode::Clear reaches the next instruction without calling Runtime::clear on some "
              "path: RUN and CLEAR then keep variables, arrays, DEFtype settings, the DATA "
              "position and pending frames")
    sl = cr.need_fn("mach::runtime::Runtime::set_listing")
    ctx.touch(sl)
    nw = sl.calls_to("mach::runtime::Runtime::new_")
    st = sl.field_stores("listing")
    ctx.check(bool(nw) and bool(st) and sl.dominates(nw[0].bb, st[0][0]), "C12.c",
              "set_listing/new-first", sl.span, "a load resets everything (new_) before installing "
              "the listing")


def rule_d(ctx, cr):
    nw = cr.need_fn("mach::runtime::Runtime::new_")
    ctx.touch(nw)
    rets = nw.return_blocks()

    def dom_all(b):
        return all(nw.dominates(b, r) for r in rets)
    c1 = nw.calls_to("mach::runtime::Runtime::clear")
    ctx.check(bool(c1) and dom_all(c1[0].bb), "C12.d", "new_/clear", nw.span, "NEW runs CLEAR")
    c2 = nw.calls_to("mach::listing::Listing::clear")
    ctx.check(bool(c2) and dom_all(c2[0].bb), "C12.d", "new_/listing.clear", nw.span,
              "NEW empties the listing")
    for fld, want in (("dirty", True), ("tron", False)):
        st = [(b, v) for b, s, v in nw.field_stores(fld)]
        ok = any(v and v.get("k") == "const" and v["const"].get("bool") is want and dom_all(b)
                 for b, v in st)
        ctx.check(ok, "C12.d", "new_/%s" % fld, nw.span, "%s = %s" % (fld, want))
    st = [b for b, s, v in nw.field_stores("state")
          if nw.stored_variant(v) == ("mach::runtime::State", "Stopped")]
    ctx.check(any(dom_all(b) for b in st), "C12.d", "new_/state", nw.span, "state = Stopped")
    lc = cr.need_fn("mach::listing::Listing::clear")
    ctx.touch(lc)
    for fld in INVENTORY["mach::listing::Listing"]:
        ok, how = resets(lc, fld)
        ctx.check(ok, "C12.d", "Listing::clear/%s" % fld, lc.span, how,
                  "Listing::clear leaves %s behind after NEW" % fld)


def rule_e(ctx, cr):
    pc = cr.need_fn("mach::program::Program::clear")
    ctx.touch(pc)
    for fld, (cls, _r) in INVENTORY["mach::program::Program"].items():
        if cls != "program":
            continue
        if fld == "link":
            c = pc.calls_to("mach::link::Link::clear")
            ok, how = bool(c), "Link::clear"
        else:
            ok, how = resets(pc, fld)
        ctx.check(ok, "C12.e", "Program::clear/%s" % fld, pc.span, how,
                  "Program::clear does not reset Program.%s: a recompile starts from stale %s"
                  % (fld, fld))
    lc = cr.need_fn("mach::link::Link::clear")
    ctx.touch(lc)
    for fld, (cls, _r) in INVENTORY["mach::link::Link"].items():
        if cls != "program":
            continue
        ok, how = resets(lc, fld)
        ctx.check(ok, "C12.e", "Link::clear/%s" % fld, lc.span, how,
                  "Link::clear does not reset Link.%s: a recompile starts from stale %s"
                  % (fld, fld))
    lw = cr.need_fn("mach::link::Link::link_whiles")
    lk = cr.need_fn("mach::link::Link::link")
    ctx.touch(lw, lk)
    take = [c for c in lw.calls_to("std::mem::take") if lw.describe(c.args[0]).endswith(".whiles")]
    ctx.check(bool(take) and all(lw.dominates(take[0].bb, r) for r in lw.return_blocks()),
              "C12.e", "link_whiles/takes-whiles", lw.span, "whiles is emptied on every link")
    c = lk.calls_to("mach::link::Link::link_whiles")
    ctx.check(bool(c) and all(lk.dominates(c[0].bb, r) for r in lk.return_blocks()), "C12.e",
              "link/calls-link_whiles", lk.span, "link() always runs link_whiles")
    # recompile: enter_direct's dirty branch calls Program::clear (C04.c checks the branch)
    ed = cr.need_fn("mach::runtime::Runtime::enter_direct")
    ctx.check(bool(ed.calls_to("mach::program::Program::clear")), "C12.e",
              "enter_direct/recompile-clears-program", ed.span, "recompile starts from clear()")
