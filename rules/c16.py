"""C16 - spelling variants of a line mean the same.

Decides: (a) case closure of every letter the scanners compare raw input with, including the
guard context of each comparison; (b) the blank-separated and the adjacent operator mergers
implement the same relation and contain the documented spellings; (c) GO TO / GO SUB rows;
(d) aliases and optional LET. Does not decide that all spellings *run* identically."""
import re

from rules import lextables as lt
from rules import common, tables

RAW_INPUT_FNS = [
    "lang::lex::BasicLexer::number", "lang::lex::BasicLexer::radix",
    "lang::lex::BasicLexer::alphabetic", "lang::lex::BasicLexer::minutia",
    "lang::lex::BasicLexer::string", "lang::lex::BasicLexer::whitespace",
    "lang::lex::BasicLexer::lex", "<lang::lex::BasicLexer as std::iter::Iterator>::next",
    "<mach::val::Val as std::convert::From<&str>>::from", "mach::function::Function::val",
]
DOCUMENTED = {("Less", "Equal"): "LessEqual", ("Equal", "Less"): "LessEqual",
              ("Greater", "Equal"): "GreaterEqual", ("Equal", "Greater"): "GreaterEqual",
              ("Less", "Greater"): "NotEqual"}


def swap(ch):
    return ch.swapcase()


def run(ctx):
    cr = ctx.lib
    ctx.rule("C16.a", "in every function that looks at raw input characters, for each ASCII letter "
             "a value is compared with, the other case is compared too under the same guard "
             "context (must-hold conditions at the comparison, ignoring the comparison chain on "
             "the same value), unless the value went through to_ascii_uppercase or the letter is "
             "normalised to the other case; string-API letter arguments (starts_with, replace) "
             "come in both cases")
    ctx.rule("C16.b", "collapse_triples (blank between) and collapse_doubles (adjacent) implement "
             "the same (first, second) -> operator relation, which contains the five documented "
             "two-character spellings")
    ctx.rule("C16.c", "collapse_triples maps GO <blank> TO to GOTO and GO <blank> SUB to GOSUB")
    ctx.rule("C16.d", "'?' scans as PRINT and \"'\" as the remark word; a statement starting with an "
             "identifier and one starting with LET build the same Statement::Let")
    rule_a(ctx, cr)
    rule_bc(ctx, cr)
    rule_d(ctx, cr)
    ctx.rule("C16.g", "a word operator typed without blanks lists like the spaced spelling: "
             "Operator::is_word agrees with the operator's listed spelling (C05.e)")
    _word_ops(ctx, cr)
    ctx.rule("C16.f", "keywords run together with identifiers are split at EVERY reserved word: "
             "Token::scan_alphabetic repeats its search on what is left after each word")
    rule_f(ctx, cr)
    rule_run_boundary(ctx, cr)
    ctx.rule("C16.e", "optional spacing: a scanner that reads one character too far and gives it "
             "back (VecDeque::push_front) restores every scanner variable it changed because of "
             "that character, so `200ELSE` yields the same number token as `200 ELSE` (shared "
             "with C05.h)")
    from rules import c05

    class _P:
        def __init__(self, c):
            self.c = c

        def __getattr__(self, n):
            return getattr(self.c, n)

        def check(self, cond, rule, key, *a, **k):
            return self.c.check(cond, "C16.e", key, *a, **k)

        def ok(self, rule, key, *a, **k):
            return self.c.ok("C16.e", key, *a, **k)

        def bad(self, rule, key, *a, **k):
            return self.c.bad("C16.e", key, *a, **k)

        def floor(self, rule, *a, **k):
            return self.c.floor("C16.e", *a, **k)
    c05.rule_h(_P(ctx), cr)


def _ctx_of(f, bb, operand):
    out = set()
    for c in f.conds_at(bb):
        src = f._cond_src.get(c)
        if c[0] == "eq" and src is not None and src.get("k") == "rv" and \
                src["rv"]["k"] == "binop" and src["rv"]["lty"] == "char":
            l, r = src["rv"]["l"], src["rv"]["r"]
            if f.same_origin(l, operand) or f.same_origin(r, operand):
                continue      # same comparison chain
        if c[0] in ("variant", "variantin"):
            continue          # Option unwrapping of peeked characters
        out.add(c)
    return frozenset(out)


def rule_a(ctx, cr):
    n_letters = 0
    for path in RAW_INPUT_FNS:
        cr.need_fn(path)
    # plus every other function of the lexer module (helpers a scanner may delegate to)
    scope = list(RAW_INPUT_FNS) + sorted(
        p for p in cr.fns if p.startswith("lang::lex::") and "{closure" not in p
        and p not in RAW_INPUT_FNS)
    for path in scope:
        f = cr.need_fn(path)
        ctx.touch(f)
        sites = lt.char_consts(f)
        groups = {}
        for ch, b, d, sp, o in sites:
            if ch.isascii() and ch.isalpha():
                groups.setdefault(d, []).append((ch, b, sp, o))
        for d, lst in sorted(groups.items()):
            if "to_ascii_uppercase" in d or "to_ascii_lowercase" in d:
                for ch, b, sp, o in lst:
                    n_letters += 1
                    ctx.ok("C16.a", "%s/%s/folded" % (path, ch), sp,
                           "value was case-folded before the comparison", trivial=True)
                continue
            letters = {ch for ch, _b, _s, _o in lst}
            # normalisation: `if x == 'e' { x = 'E' }`
            normalised = set()
            for ch, b, sp, o in lst:
                for bb, i, st in f.assigns():
                    if st["place"]["proj"]:
                        continue
                    p = o.get("place") if o.get("k") in ("copy", "move") else None
                    if p is None or st["place"]["local"] != _root_local(f, o):
                        continue
                    cv = f.const_of_operand(st["rv"]["op"]) if st["rv"]["k"] == "use" else None
                    if cv == swap(ch) and any(
                            c[0] == "eq" and c[2] is True and ("const:%r" % ch) in str(c[1])
                            for c in f.conds_at(bb)):
                        normalised.add(ch)
            ctxs = {}
            for ch, b, sp, o in lst:
                ctxs.setdefault(ch, set()).add(_ctx_of(f, b, o))
            for ch in sorted(letters):
                n_letters += 1
                key = "%s/%s/%s" % (path, _short(d), ch)
                sp = [s for c2, _b, s, _o in lst if c2 == ch][0]
                if ch in normalised:
                    ctx.ok("C16.a", key, sp, "%r is normalised to %r" % (ch, swap(ch)))
                    continue
                other = swap(ch)
                if other in normalised:
                    ctx.ok("C16.a", key, sp, "%r is the normal form of %r" % (ch, other))
                    continue
                if other not in letters:
                    ctx.bad("C16.a", key, sp,
                            "raw input is compared with %r but never with %r: the two letter "
                            "cases of the same text lex differently" % (ch, other))
                    continue
                same = ctxs[ch] == ctxs[other]
                ctx.check(same, "C16.a", key, sp, "both cases compared under the same guards",
                          "%r and %r are compared under different guard contexts (%s vs %s): the "
                          "two letter cases of the same text lex differently"
                          % (ch, other, _fmt(ctxs[ch]), _fmt(ctxs[other])))
        # letters passed to string APIs
        api = {}
        for c in f.calls():
            # the pattern operand only: what `replace` writes INTO the text is not a test of it
            pats = c.args[1:2] if re.search(r"::replacen?$", c.callee or "") else c.args[1:]
            for a in pats:
                cv = f.const_of_operand(a)
                if isinstance(cv, str) and len(cv) == 1 and cv.isascii() and cv.isalpha():
                    recv = f.describe(c.args[0]) if c.args else ""
                    api.setdefault((c.callee, _strip_calls(recv)), set()).add(cv)
        # receivers that are a String built only from case-folded characters
        folded = set()
        pushes = {}
        for c in f.calls_matching(r"String::push$"):
            names = f.back_slice_calls(c.args[1])
            isfold = any(n.endswith("to_ascii_uppercase") or n.endswith("to_ascii_lowercase")
                         for n in names)
            pushes.setdefault(_strip_calls(f.describe(c.args[0])), []).append(isfold)
        for r_, flags in pushes.items():
            if flags and all(flags):
                folded.add(r_)
        for (callee, recv), ls in sorted(api.items(), key=str):
            for ch in sorted(ls):
                n_letters += 1
                meth = (callee or "").rsplit("::", 1)[-1]
                if recv in folded:
                    ctx.ok("C16.a", "%s/%s(%s)" % (path, meth, ch), f.span,
                           "the string searched was built from case-folded characters only")
                    continue
                fam = set()
                for (c2, r2), l2 in api.items():
                    if (c2 or "").rsplit("::", 1)[-1] == meth:
                        fam |= l2
                ctx.check(swap(ch) in fam, "C16.a", "%s/%s(%s)" % (path, meth, ch), f.span,
                          "%s is applied with both letter cases" % meth,
                          "%s(%r) has no counterpart for %r: the two letter cases of the same "
                          "text are treated differently" % (meth, ch, swap(ch)))
    # 14 on the pinned tree; four of them are the D/d/E/e patterns of Val::from's text rewriting,
    # which can be written as one char-array pattern without changing behaviour
    ctx.floor("C16.a", "letter comparisons examined", n_letters, 10)
    # scanner flags: a flag that is tested but can never become true means the distinction it
    # stands for (a digit was seen, an exponent was seen, ...) is never made
    nf = 0
    for path in sorted(RAW_INPUT_FNS):
        f = cr.fn(path)
        if f is None:
            continue
        nf += 1
        for name, vals in common.dead_flags(f):
            ctx.bad("C16.f", "%s/flag-can-be-set/%s" % (path, name), f.span,
                    "the flag `%s` of %s is tested but only ever assigned false: the scanner no "
                    "longer ends a run where the flag says it must (a letter after the digits of "
                    "an identifier, a second exponent letter)" % (name, path))
    ctx.ok("C16.f", "scanner-flags/examined", "", "%d scanner functions examined for dead flags" % nf)



def _root_local(f, o):
    p = o.get("place") if o.get("k") in ("copy", "move") else None
    if p is None:
        return None
    v = f.value_of_local(p["local"])
    if v.get("k") == "multi":
        return v["local"]
    return p["local"]


def _short(d):
    d = re.sub(r"call:[^()]*::", "", d)
    return d[:60]


def _strip_calls(d):
    return re.sub(r"_\d+", "_", d)[:80]


def _fmt(cs):
    return sorted(sorted(_short(str(c[1])) + "=" + str(c[2]) for c in s) for s in cs)


def rule_bc(ctx, cr):
    tri = lt.collapse_table(cr, "lang::lex::BasicLexer::collapse_triples")
    dbl = lt.collapse_table(cr, "lang::lex::BasicLexer::collapse_doubles")
    ctx.touch("lang::lex::BasicLexer::collapse_triples", "lang::lex::BasicLexer::collapse_doubles")
    ctx.floor("C16.b", "collapse_triples rows", len(tri), 8)
    ctx.floor("C16.b", "collapse_doubles rows", len(dbl), 5)
    # the rows are applied where they were found: positions are recorded in ONE pass (ascending)
    # and replaced from the back, so an earlier replacement cannot shift a later one
    from rules import panics
    for nm in ("collapse_triples", "collapse_doubles"):
        f = cr.need_fn("lang::lex::BasicLexer::" + nm)
        if f.calls_matching(r"Vec::<T, A>::pop$") and f.calls_matching(r"Vec::<T, A>::push$"):
            ok, text = panics.verify_guard(f, None, {"guard": {"recorded_in_one_loop": True}})
            ctx.check(ok, "C16.b", "%s/positions-recorded-in-one-pass" % nm, f.span, text,
                      "%s: %s - a line with both kinds of spelling (GO TO before `< =`) is "
                      "rewritten at the wrong tokens" % (nm, text))
    rel3 = {}
    go = []
    for pat, res in tri:
        a, m, b = pat.get(0), pat.get(1), pat.get(2)
        if m is None or m[0] != "Whitespace":
            ctx.bad("C16.b", "triples/row-without-blank/%s" % (res,), "",
                    "a collapse_triples row whose middle token is not a blank: %s" % pat)
            continue
        if a and a[0] == "Operator" and b and b[0] == "Operator":
            rel3[(a[1], b[1])] = res[1]
        else:
            go.append((a, b, res))
    rel2 = {}
    for pat, res in dbl:
        a, b = pat.get(0), pat.get(1)
        if a and a[0] == "Operator" and b and b[0] == "Operator":
            rel2[(a[1], b[1])] = res[1]
    for k in sorted(set(rel3) | set(rel2)):
        ctx.check(rel3.get(k) == rel2.get(k), "C16.b", "relation/%s,%s" % k, "",
                  "%s %s -> %s with and without a blank" % (k[0], k[1], rel3.get(k)),
                  "`%s %s` merges to %s with a blank between but to %s when adjacent: the meaning "
                  "of a line depends on optional spacing" % (k[0], k[1], rel3.get(k), rel2.get(k)))
    for k, v in DOCUMENTED.items():
        ctx.check(rel2.get(k) == v and rel3.get(k) == v, "C16.b", "documented/%s,%s" % k, "",
                  "documented spelling merges to %s" % v,
                  "documented spelling %s %s no longer merges to %s" % (k[0], k[1], v))
    # GO TO / GO SUB
    got = {(r[2][1]): r for r in go if r[2] and r[2][0] == "Word"}
    f = cr.need_fn("lang::lex::BasicLexer::collapse_triples")
    strs = set()
    for c in f.calls():
        if "PartialEq" in (c.callee or ""):
            for a in c.args:
                cv = f.const_of_operand(a)
                if isinstance(cv, str):
                    strs.add(cv)
    ctx.check("Goto" in got and got["Goto"][1] == ("Word", "To") and "GO" in strs, "C16.c",
              "GO-TO", f.span, "GO <blank> TO -> GOTO",
              "the GO TO spelling is no longer merged into GOTO")
    ctx.check("Gosub" in got and got["Gosub"][1] is not None and got["Gosub"][1][0] == "Ident"
              and "SUB" in strs, "C16.c", "GO-SUB", f.span, "GO <blank> SUB -> GOSUB",
              "the GO SUB spelling is no longer merged into GOSUB")


    # the second word must be a reserved word of the scanner, or it is not split from what
    # follows it: TO is (GO TO100 works), SUB is not (GO SUB100 lexes SUB100 as one identifier)
    ctx.check("Gosub" in got and got["Gosub"][1] is not None and got["Gosub"][1][0] == "Word",
              "C16.c", "GO-SUB/second-word-reserved", f.span,
              "GO SUB is recognised by a reserved word, so `GO SUB100` splits like `GO TO100`",
              "collapse_triples recognises GO SUB by comparing an identifier with \"SUB\": SUB is "
              "not a reserved word, so in `GO SUB100` (no blank before the number) the scanner "
              "reads the identifier SUB100 and the line is an UNKNOWN STATEMENT, while "
              "`GO SUB 100`, `GOSUB100` and `GO TO100` all work")


def rule_run_boundary(ctx, cr):
    """alphabetic(): where a run ends depends on the next character's class, not on the letters
    collected so far (reserved words are found afterwards, by scan_alphabetic)"""
    f = cr.need_fn("lang::lex::BasicLexer::alphabetic")
    ctx.touch(f)
    tests = sorted({(c.callee or c.name).rsplit("::", 1)[1] for c in f.calls()
                    if re.search(r"<impl str>::(ends_with|starts_with|contains|find|rfind|"
                                 r"eq_ignore_ascii_case|len|chars|char_indices|get)$|"
                                 r"PartialEq<str>|PartialEq<&str>|String as std::cmp::PartialEq",
                                 c.callee or c.name)})
    ctx.check(not tests, "C16.f", "alphabetic/run-ends-by-character-class", f.span,
              "the collected text is only appended to, handed to scan_alphabetic, or tested for "
              "emptiness",
              "alphabetic() inspects the letters collected so far (%s) to decide where the run "
              "ends: a suffix like REM that belongs to FOR/OR/XOR plus an identifier (`forEMP`) "
              "cuts the identifier, so the run-together spelling means something else" % tests)


def rule_f(ctx, cr):
    """scan_alphabetic searches the remainder again after every word it takes"""
    f = cr.need_fn("lang::token::Token::scan_alphabetic")
    ctx.touch(f)
    sccs = [set(x) for x in f.sccs()]
    finds = [g for g in cr.closures_of(f.path)
             if any((c.callee or c.name).endswith("<impl str>::find") for c in g.calls())]
    # where the closure that searches is applied: the iterator adaptor calls of scan_alphabetic
    apply = [c for c in f.calls() if re.search(r"Iterator::(filter_map|map|find_map|filter|flat_map)$",
                                                c.name)]
    reslice = [c for c in f.calls() if c.name.endswith("ops::Index<I> for str>::index")]
    ok = bool(finds) and bool(apply) and bool(reslice)
    if ok:
        ok = any(c.bb in sc and any(r.bb in sc for r in reslice) for c in apply for sc in sccs)
    ctx.check(ok, "C16.f", "scan_alphabetic/rescans-remainder", f.span,
              "the search over the keyword table runs inside the loop that shortens the text, so "
              "a reserved word occurring twice in one run is split both times",
              "the keyword table is searched once per alphabetic run instead of once per word "
              "taken: a reserved word that occurs twice in one run (`printaandbandc`) is found "
              "only the first time and the second copy stays inside an identifier, so the "
              "run-together spelling means something else than the spaced one")


def rule_d(ctx, cr):
    mn = lt.minutia(cr)
    ctx.check(mn.get("?") == ("Word", ("Word", "Print")), "C16.d", "alias/?", "", "? is PRINT")
    ctx.check(mn.get("'") == ("Word", ("Word", "Rem2")), "C16.d", "alias/'", "", "' is a remark")
    nx = cr.need_fn("<lang::lex::BasicLexer as std::iter::Iterator>::next")
    rem = [st for b, st, v in nx.field_stores("remark")
           if v and v.get("k") == "const" and v["const"].get("bool") is True]
    ctx.check(len(rem) >= 2, "C16.d", "remark/both-markers", nx.span,
              "both REM and ' switch the lexer to remark mode (%d stores)" % len(rem))
    # every way a word token leaves next() is checked for the remark word: the direct result of
    # alphabetic()/minutia() AND a word queued in `pending` by an earlier run (THENREM ...)
    ctx.touch(nx)
    srcs = [c for c in nx.calls()
            if c.name in ("lang::lex::BasicLexer::alphabetic", "lang::lex::BasicLexer::minutia")
            or (c.name.endswith("VecDeque::<T, A>::pop_front")
                and nx.describe(c.args[0]).endswith(".pending"))]
    stores = [b for b, st, v in nx.field_stores("remark")
              if v and v.get("k") == "const" and v["const"].get("bool") is True]
    ctx.floor("C16.d", "token sources of next() that can yield a word", len(srcs), 3)
    for c in srcs:
        own = [b for b in stores if nx.dominates(c.bb, b) and not any(
            c2 is not c and nx.dominates(c.bb, c2.bb) and nx.dominates(c2.bb, b) for c2 in srcs)]
        nm = c.name.rsplit("::", 1)[1]
        ctx.check(bool(own), "C16.d", "remark/checked-after/%s" % nm, c.span,
                  "a remark word coming out of %s switches to remark mode" % nm,
                  "a token taken from %s is returned without testing it for the remark word: in "
                  "`IF A THENREM it's \"ok` the REM is queued behind THEN, remark mode is never "
                  "entered and the remark text is tokenised (listed as `REM IT 's \"ok`)" % nm)
    se = cr.need_fn("lang::ast::Statement::expect")
    ctx.touch(se)
    lets = se.calls_to("lang::ast::Statement::let")
    flags = set()
    for c in lets:
        flags.add(se.const_of_operand(c.args[1]))
    ctx.check(flags == {True, False}, "C16.d", "optional-LET/both-entries", se.span,
              "identifier-first and LET-first statements both go to Statement::let (%s)" % flags,
              "LET is no longer optional: Statement::let is entered with %s" % flags)
    sl = cr.need_fn("lang::ast::Statement::let")
    built = {st["rv"]["variant"] for b, i, st in sl.aggregates("lang::ast::Statement")}
    ctx.check("Let" in built, "C16.d", "optional-LET/same-node", sl.span, "builds Statement::Let")
    # the shortcut flag only selects an error message: no Statement is built under a test of it
    dep = False
    for b, i, st in sl.aggregates("lang::ast::Statement"):
        for c in sl.conds_at(b):
            if c[0] == "eq" and "arg:2" in str(c[1]):
                dep = True
    ctx.check(not dep, "C16.d", "optional-LET/flag-only-in-errors", sl.span,
              "the AST built does not depend on whether LET was written")


def _word_ops(ctx, cr):
    isw = lt.bool_table(cr, "lang::token::Operator::is_word")
    disp = lt.display(cr, "lang::token::Operator")
    n = 0
    for v in cr.variants("lang::token::Operator"):
        d = disp.get(v)
        if not isinstance(d, str):
            continue
        n += 1
        ctx.check(isw.get(v) == d.isalpha(), "C16.g", "is_word/%s" % v, "",
                  "%s lists as %r, is_word = %s" % (v, d, isw.get(v)),
                  "Operator::%s lists as %r but is_word says %s: typed without blanks (AMODB) it "
                  "is not separated in the listing, unlike the spaced spelling" % (v, d, isw.get(v)))
    ctx.floor("C16.g", "operators", n, 19)
