"""C11 - PRINT lays out output exactly as documented.

Decides the cursor-column bookkeeping as effects (every event that writes to the terminal has
the reviewed effect on print_col), the character-wise count, the plumbing of TAB/POS/comma and
trailing separators, and the number framing (one trailing blank, leading blank unless '-',
Single formatted from f32 and Double from f64). Does not decide zone arithmetic, the switch to
exponent notation or round-trip of every float."""
import re

from rules import tables

EVENT = "mach::runtime::Event"
# (function, event variant, ordinal) -> required effect on print_col before the event is returned
#   reset    : print_col = 0 dominates the construction / is on the path
#   count    : print_col is advanced by a per-character count of the emitted text
#   zero     : a must-hold condition print_col == 0 (or a reset) dominates
#   none     : no effect required, with reason
SITES = {
    ("mach::runtime::Runtime::cls", "Cls", 1): ("reset", "the screen is cleared, cursor home"),
    ("mach::runtime::Runtime::execute", "List", 1): ("reset", "a listed line ends with a newline"),
    ("mach::runtime::Runtime::execute", "Print", 1):
        ("none", "intro banner, printed once before anything else; ends in newline, col is 0"),
    ("mach::runtime::Runtime::execute", "Print", 2):
        ("reset", "the newline that precedes an error message"),
    ("mach::runtime::Runtime::execute", "Errors", 1):
        ("none", "REDO FROM START follows an INPUT reply (enter() reset the column)"),
    ("mach::runtime::Runtime::execute", "Errors", 2):
        ("none", "direct-line compile errors follow the READY prompt, which reset the column"),
    ("mach::runtime::Runtime::execute", "Errors", 3):
        ("zero", "runtime errors are printed only once print_col is 0"),
    ("mach::runtime::Runtime::execute_input", "Input", 1):
        ("reset", "the reply ends with the user's newline"),
    ("mach::runtime::Runtime::execute_loop", "Errors", 1):
        ("none", "the program stops; ready_prompt() re-synchronises before anything can observe it"),
    ("mach::runtime::Runtime::execute_loop", "Print", 1): ("count", "the TRON trace text"),
    ("mach::runtime::Runtime::print", "Print", 1): ("count", "PRINT output"),
    ("mach::runtime::Runtime::ready_prompt", "Print", 1):
        ("sync", "prompt starts on a fresh line: newline + reset when the column is not 0"),
    ("mach::runtime::Runtime::renum", "Errors", 1):
        ("none", "direct mode only; ready_prompt() follows"),
}


def run(ctx):
    cr = ctx.lib
    ctx.rule("C11.a", "every construction of Event::{Print,List,Errors,Input,Cls} in mach::runtime "
             "is in the reviewed table with its required effect on print_col, and the effect is "
             "present on the path to that construction (reset: a store of 0; count: a per-"
             "character advance; zero: print_col == 0 must hold)")
    ctx.rule("C11.b", "r#print counts characters: it iterates chars(), '\\n' resets the column and "
             "every other character adds 1; the trace adds the length of an ASCII-only string")
    ctx.rule("C11.c", "TAB and POS receive self.print_col; ',' in a print list is TAB(-14); a "
             "trailing ';' or ',' suppresses the newline literal, anything else re-enables it")
    ctx.rule("C11.d", "numbers are printed as \"{} \" (one trailing blank) and Val's Display puts a "
             "blank in front unless the text starts with '-'; Single is formatted from the f32 and "
             "Double from the f64 (no cast before formatting)")
    rule_a(ctx, cr)
    rule_b(ctx, cr)
    rule_c(ctx, cr)
    rule_zone(ctx, cr)
    rule_d(ctx, cr)


def rule_a(ctx, cr):
    n = 0
    seen = set()
    for p, f in sorted(cr.fns.items()):
        if not p.startswith("mach::runtime::"):
            continue
        cnt = {}
        sites = sorted([(st["span"]["line"], b, st) for b, i, st in f.aggregates(EVENT)
                        if st["rv"]["variant"] in ("Print", "List", "Errors", "Input", "Cls")])
        if sites:
            ctx.touch(f)
        stores = f.field_stores("print_col")
        for _ln, b, st in sites:
            v = st["rv"]["variant"]
            cnt[v] = cnt.get(v, 0) + 1
            key = (p, v, cnt[v])
            seen.add(key)
            n += 1
            k = "%s/%s#%d" % (p, v, cnt[v])
            spec = SITES.get(key)
            if spec is None:
                ctx.bad("C11.a", k, st["span"],
                        "terminal output event Event::%s constructed here is not in the reviewed "
                        "table: nothing says how it must update the cursor column" % v)
                continue
            eff, why = spec
            if eff == "none":
                ctx.ok("C11.a", k, st["span"], "no effect required: " + why, trivial=True)
                continue
            if eff == "reset":
                ok = any(f.describe_value(val) == "const:0" and (f.dominates(bb, b) or bb == b)
                         for bb, _s, val in stores)
                ctx.check(ok, "C11.a", k, st["span"], "print_col = 0 (%s)" % why,
                          "Event::%s is returned without resetting print_col (%s): POS/TAB/commas "
                          "keep using the column from before this output" % (v, why))
            elif eff == "sync":
                zero_blocks = {bb for bb, _s, val in stores if f.describe_value(val) == "const:0"}
                seen_b = set()
                stack = [0]
                reach = False
                while stack:
                    x = stack.pop()
                    if x in seen_b or x in zero_blocks:
                        continue
                    seen_b.add(x)
                    if x == b:
                        reach = True
                        break
                    ec = f.edge_conds(x)
                    for y in f.succ(x):
                        known0 = False
                        for c in ec.get(y, ()):
                            src = f._cond_src.get(c)
                            if c[0] == "eq" and c[2] is False and src and src.get("k") == "rv" and \
                                    src["rv"]["k"] == "binop" and src["rv"]["op"] == "Gt" and \
                                    f.describe(src["rv"]["l"]).endswith(".print_col") and \
                                    f.describe(src["rv"]["r"]) == "const:0":
                                known0 = True
                        if not known0:
                            stack.append(y)
                ctx.check(not reach, "C11.a", k, st["span"],
                          "on every path print_col is 0 or is reset (%s)" % why,
                          "Event::%s can be returned with a stale non-zero print_col" % v)
            elif eff == "count":
                ok = any(("Add" in (f.describe_value(val) or "")) and
                         (f.dominates(bb, b) or f.can_reach(bb, b)) for bb, _s, val in stores)
                ctx.check(ok, "C11.a", k, st["span"], "print_col advanced by the text (%s)" % why,
                          "Event::%s is returned without advancing print_col by the printed text"
                          % v)
            elif eff == "zero":
                ok = any(op == "Gt" and not truth and f.describe(l).endswith(".print_col")
                         and f.describe(r) == "const:0" for op, l, r, truth in f.cmp_conds_at(b))
                ctx.check(ok, "C11.a", k, st["span"], "only reached when print_col == 0 (%s)" % why,
                          "Event::%s can be returned while print_col > 0" % v)
    ctx.floor("C11.a", "terminal output events", n, 13)
    for key in SITES:
        if key not in seen:
            ctx.notes.append("table row without a site: %s" % (key,))
    # enter(): the reply to INPUT resets the column
    en = cr.need_fn("mach::runtime::Runtime::enter")
    st = en.field_stores("print_col")
    ctx.check(any(en.describe_value(v) == "const:0" for _b, _s, v in st), "C11.a",
              "enter/input-reply-resets", en.span, "entering an INPUT reply resets the column")


def rule_b(ctx, cr):
    f = cr.need_fn("mach::runtime::Runtime::print")
    ctx.touch(f)
    chars = f.calls_matching(r"<impl str>::chars$")
    nxt = f.calls_matching(r"Chars<'a> as std::iter::Iterator>::next$")
    blen = f.calls_matching(r"(<impl str>|String)::len$")
    ctx.check(bool(chars) and bool(nxt) and not blen, "C11.b", "print/iterates-chars", f.span,
              "the column is advanced per character",
              "r#print %s: the column would be counted in bytes"
              % ("uses len()" if blen else "does not iterate chars()"))
    stores = f.field_stores("print_col")
    zero = plus = False
    for b, st, v in stores:
        d = f.describe_value(v)
        nl = any(c[0] == "eq" and c[2] == 10 for c in f.conds_at(b)) or \
            any(c[0] == "eq" and "const:'\\n'" in str(c[1]) and c[2] is True for c in f.conds_at(b))
        if d == "const:0" and nl:
            zero = True
        if re.search(r"print_col Add(WithOverflow)? const:1\)", d or "") and not nl:
            plus = True
    ctx.check(zero and plus, "C11.b", "print/newline-resets-else-plus-one", f.span,
              "'\\n' -> 0, any other character -> +1",
              "the per-character update is no longer `newline resets, everything else adds 1` "
              "(stores: %s)" % [f.describe_value(v) for _b, _s, v in stores])
    lp = cr.need_fn("mach::runtime::Runtime::execute_loop")
    tr = [f2 for b, st, f2 in lp.field_stores("print_col")]
    okt = any("String::len" in (lp.describe_value(v) or "") for v in tr)
    tpl = set()
    for b in lp.reachable():
        for s in tables.block_strings(lp, b):
            tpl.add(s)
    ctx.check(okt and "[{}]" in tpl, "C11.b", "trace/ascii-length", lp.span,
              "the trace \"[n]\" is ASCII, its byte length is its width")


def rule_c(ctx, cr):
    lp = cr.need_fn("mach::runtime::Runtime::execute_loop")
    ctx.touch(lp)
    for fn, idx in (("mach::function::Function::tab", 0), ("mach::function::Function::pos", 0)):
        cs = lp.calls_to(fn)
        ok = len(cs) == 1 and lp.describe(cs[0].args[idx]).endswith(".print_col")
        ctx.check(ok, "C11.c", "%s/receives-print_col" % fn.rsplit("::", 1)[1], lp.span,
                  "%s works on the true cursor column" % fn.rsplit("::", 1)[1].upper(),
                  "%s is no longer given self.print_col" % fn)
    pl = cr.need_fn("lang::parse::BasicParser<'a>::expect_print_list")
    ctx.touch(pl)
    consts = set()
    names = set()
    for b, i, st in pl.aggregates("lang::ast::Expression", "Integer"):
        consts.add(pl.const_of_operand(st["rv"]["ops"][1]))
    for g in [pl] + pl.promoted_fns():
        for b in g.reachable():
            for s in tables.block_strings(g, b):
                names.add(s)
    ctx.check(consts == {-14} and "TAB" in names, "C11.c", "print-list/comma-is-TAB(-14)", pl.span,
              "',' becomes TAB(-14)", "',' is desugared with %s / %s" % (consts, sorted(names)))
    ctx.check("\n" in names, "C11.c", "print-list/newline-literal", pl.span,
              "the implicit newline is a \"\\n\" string literal")
    # linefeed flag: false on ';' and ',', true on expression; newline only if linefeed
    # the flag: a user bool local that is assigned constants in several places (its name is free)
    lf = set()
    for l, ds in pl.defs().items():
        if pl.local_ty(l) != "bool" or not pl.name_of_local(l):
            continue
        k = sum(1 for d in ds if d[0] == "stmt" and d[3]["k"] == "use"
                and isinstance(pl.const_of_operand(d[3]["op"]), bool))
        if k >= 3:
            lf.add(l)
    vals = []
    for b, i, st in pl.assigns():
        if not st["place"]["proj"] and st["place"]["local"] in lf and st["rv"]["k"] == "use":
            tok = None
            for c in pl.conds_at(b):
                if c[0] == "variant" and c[2] == "lang::token::Token":
                    tok = c[3]
            vals.append((tok, pl.const_of_operand(st["rv"]["op"])))
    want = {("Semicolon", False), ("Comma", False)}
    ctx.check(want <= set(vals) and (None, True) in set(vals) or
              want <= set(vals) and any(v is True for _t, v in vals), "C11.c",
              "print-list/trailing-separator", pl.span,
              "';' and ',' clear the linefeed flag, an expression sets it (%s)" % vals,
              "the linefeed flag is assigned %s" % vals)


def rule_zone(ctx, cr):
    """TAB(-z) (what ',' compiles to): advance by z - (column mod z), i.e. always to the START
    of the next zone, a full zone when already on a boundary"""
    t = cr.need_fn("mach::function::Function::tab")
    ctx.touch(t)
    rems = [(b, st) for b, i, st in t.assigns()
            if st["rv"]["k"] == "binop" and st["rv"]["op"] == "Rem"]
    ok = len(rems) == 1
    if ok:
        b, st = rems[0]
        l, r = t.describe(st["rv"]["l"]), t.describe(st["rv"]["r"])
        ok = l == "arg:1" and "Neg" in r
        subs = [s2 for b2, i2, s2 in t.assigns() if s2["rv"]["k"] == "binop"
                and s2["rv"]["op"].startswith("Sub") and "Rem" in t.describe(s2["rv"]["r"])]
        ok = ok and len(subs) == 1 and t.describe(subs[0]["rv"]["l"]) == r
        others = [s2["rv"]["op"] for b2, i2, s2 in t.assigns() if s2["rv"]["k"] == "binop"
                  and s2["rv"]["op"].split("With")[0] in ("Mul", "Div")]
        ok = ok and not others
        neg = any(op == "Lt" and tr and t.describe(rr) == "const:0"
                  for op, ll, rr, tr in t.cmp_conds_at(b))
        ok = ok and neg
    ctx.check(ok, "C11.c", "tab/zone-advance", t.span,
              "for a negative argument the padding is zone - (column mod zone)",
              "TAB with a negative argument no longer pads by `zone - column %% zone`: ',' on a "
              "zone boundary (a leading comma, two commas in a row, an item ending on column 14) "
              "emits no padding or the wrong amount")


def rule_d(ctx, cr):
    f = cr.need_fn("mach::runtime::Runtime::print")
    tpl = set()
    for b in f.reachable():
        for s in tables.block_strings(f, b):
            tpl.add(s)
    ctx.check("{} " in tpl, "C11.d", "print/number-template", f.span,
              "non-strings are printed as \"{} \"",
              "numbers are printed with templates %s (expected one trailing blank)" % sorted(tpl))
    d = cr.need_fn("<mach::val::Val as std::fmt::Display>::fmt")
    ctx.touch(d)
    ins = d.calls_matching(r"String::insert$")
    sw = d.calls_matching(r"<impl str>::starts_with$")
    ok = len(ins) == 1 and d.const_of_operand(ins[0].args[2]) == " " and \
        d.const_of_operand(ins[0].args[1]) == 0 and len(sw) == 1 and \
        d.const_of_operand(sw[0].args[1]) == "-"
    if ok:
        ok = any(c[0] == "eq" and "starts_with" in str(c[1]) and c[2] is False
                 for c in d.conds_at(ins[0].bb))
    ctx.check(ok, "C11.d", "Val::fmt/leading-blank", d.span,
              "a blank is put in front unless the text starts with '-'")
    # Single from f32, Double from f64: the value handed to the formatter has the variant's type
    place = tables.arg_place(d, 1)
    bad = []
    for c in d.calls_matching(r"Argument::<'_>::new_(display|upper_exp)$"):
        vs = d.variants_at(c.bb, place)
        ty = c.callee_args or ""
        m = re.search(r"::<(\w+)>$", ty) or re.search(r"::<&?(\w+)>", ty)
        t = m.group(1) if m else "?"
        if vs == {"Single"} and t != "f32" or vs == {"Double"} and t != "f64":
            bad.append((sorted(vs), t))
    casts = [st["rv"]["kind"] for b, i, st in d.assigns() if st["rv"]["k"] == "cast"
             and st["rv"]["kind"] == "FloatToFloat"]
    ctx.check(not bad and not casts, "C11.d", "Val::fmt/own-float-type", d.span,
              "Single is formatted as f32 and Double as f64 (shortest round-trip of the right type)",
              "a float is converted before formatting (%s %s): it no longer prints as the "
              "shortest decimal of its own type" % (bad, casts))
    thr = set()
    for b, i, st in d.assigns():
        rv = st["rv"]
        if rv["k"] == "binop" and rv["op"] == "Gt":
            v = d.const_of_operand(rv["r"])
            if isinstance(v, int):
                thr.add(v)
    ctx.check(thr == {9, 17}, "C11.d", "Val::fmt/exponent-thresholds", d.span,
              "exponent notation above 9 (Single) / 17 (Double) digits",
              "digit-count thresholds are %s" % sorted(thr))
