"""C20 - branches resolve by line number, independent of program layout.

Decides: Link::append re-bases every imported address/symbol with offsets read before the
append; resolution is by symbol key; line symbols are pushed before each line's code; direct
code sits after the linked program; local symbols come from one allocator and die at link.
Does not decide behavioural equality across layouts."""
import re


def run(ctx):
    cr = ctx.lib
    ctx.rule("C20.a", "Link::append reads its three offsets (ops.len(), data.len(), current_symbol) "
             "before appending, and every imported symbol address, unlinked address, while address "
             "is the imported value plus the code offset (data address: plus the data offset), "
             "local symbols plus the symbol offset, line symbols untouched")
    ctx.rule("C20.b", "line references get their symbol only from symbol_for_line_number "
             "(identity on the number) and link() resolves with symbols.get(&symbol)")
    ctx.rule("C20.c", "Program::codegen pushes the line symbol before generating the line; direct "
             "code is placed at direct_address after link(); the direct-start symbol is "
             "max_value()+1, above every line")
    ctx.rule("C20.d", "next_symbol is the only allocator of local symbols; link() drops the "
             "negative symbols and resets the counter")
    rule_a(ctx, cr)
    rule_b(ctx, cr)
    rule_c(ctx, cr)
    rule_d(ctx, cr)
    ctx.rule("C20.e", "appending or removing a trailing line does not change where the program "
             "ends: the program's own End is present even when its last statement is an IF whose "
             "branch ends in END (see C01.i)")
    from rules import codegen
    codegen.check_program_end(ctx, "C20.e", cr)
    ctx.rule("C20.f", "where statements sit on a line does not matter: every statement of a line "
             "is handed to the code generator (no early exit from the per-line statement loop), "
             "so DATA and WEND after a GOTO on the same line still count")
    codegen.check_all_statements_compiled(ctx, "C20.f", cr)


def rule_a(ctx, cr):
    f = cr.need_fn("mach::link::Link::append")
    ctx.touch(f)
    app = f.calls_to("mach::stack::Stack<T>::append")
    lens = f.calls_to("mach::stack::Stack<T>::len")
    first_app = None
    for c in app:
        if first_app is None or f.dominates(c.bb, first_app.bb):
            first_app = c
    ok = len(app) == 2 and len(lens) >= 2 and first_app is not None and \
        all(f.dominates(c.bb, first_app.bb) for c in lens)
    ctx.check(ok, "C20.a", "append/offsets-read-first", f.span,
              "ops.len() and data.len() are read before either append",
              "an offset is read after code/data was appended: every imported address is shifted "
              "by the fragment's own length")
    cs = f.field_stores("current_symbol")
    ctx.check(len(cs) == 1, "C20.a", "append/symbol-counter-advanced-once", f.span,
              "current_symbol is advanced once, by the fragment's counter")
    # additions
    adds = []
    for b, i, st in f.assigns():
        rv = st["rv"]
        if rv["k"] == "binop" and rv["op"].startswith("Add"):
            adds.append((b, f.describe(rv["l"]), f.describe(rv["r"]), st["span"]))

    def has(lpat, rpat):
        return [a for a in adds if re.search(lpat, a[1]) and re.search(rpat, a[2])]
    code = r"Stack<T>::len\(&\(\*_1\)\.ops\)"
    data = r"Stack<T>::len\(&\(\*_1\)\.data\)"
    sym = r"\(\*_1\)\.current_symbol$"
    imp = r"Iterator>::next"
    ctx.check(len(has(imp, code)) == 3, "C20.a", "append/code-addresses-rebased", f.span,
              "symbol code address, unlinked address and while address get + ops offset",
              "%d of the 3 imported code addresses are re-based by ops.len()" % len(has(imp, code)))
    ctx.check(len(has(imp, data)) == 1, "C20.a", "append/data-address-rebased", f.span,
              "symbol data address gets + data offset",
              "the imported data address is not re-based by data.len(): RESTORE n would point "
              "into the wrong part of the data segment")
    shifts = has(r".", sym)          # every `x + current_symbol`, whatever x is called
    ctx.check(len(shifts) == 3, "C20.a", "append/local-symbols-rebased", f.span,
              "local symbols of symbols/unlinked/whiles get + symbol offset",
              "%d additions of the symbol offset (expected 3: symbols, unlinked, whiles)"
              % len(shifts))
    # only negative symbols are shifted: symbols and unlinked can hold line numbers and need the
    # `< 0` guard; WHILE/WEND labels are always local
    neg = 0
    for b, l, r, sp in shifts:
        if any(op == "Lt" and truth and f.describe(ro) == "const:0"
               for op, lo, ro, truth in f.cmp_conds_at(b)):
            neg += 1
    ctx.check(neg >= 2, "C20.a", "append/line-symbols-untouched", f.span,
              "symbol shifting is guarded by `symbol < 0` (line numbers are global)",
              "the `symbol < 0` guard is missing on %d of the 2 shifts that can meet a line "
              "number: line numbers would be offset" % (2 - neg))
    ins = f.calls_matching(r"BTreeMap::<K, V, A>::insert$")
    ctx.check(len(ins) == 1 and ".symbols" in f.describe(ins[0].args[0]), "C20.a",
              "append/symbols-merged", f.span, "imported symbols are merged into the table")


def rule_b(ctx, cr):
    s = cr.need_fn("mach::link::Link::symbol_for_line_number")
    ctx.touch(s)
    casts = [st for b, i, st in s.assigns() if st["rv"]["k"] == "cast"]
    arith = [st for b, i, st in s.assigns() if st["rv"]["k"] == "binop"]
    ctx.check(len(casts) == 1 and not arith and casts[0]["rv"]["from"] == "u16", "C20.b",
              "symbol_for_line_number/identity", s.span, "the symbol of line n is n")
    for name in ("push_goto", "push_gosub", "push_restore", "push_run"):
        g = cr.need_fn("mach::link::Link::" + name)
        ctx.touch(g)
        ctx.check(bool(g.calls_to(s.path)), "C20.b", "%s/uses-line-symbol" % name, g.span,
                  "target symbol comes from symbol_for_line_number")
    callers = sorted(cr.callers_of(s.path))
    ctx.check(all(c.startswith("mach::link::Link::push_") for c in callers), "C20.b",
              "symbol_for_line_number/callers", "", "only the push_* emitters derive line symbols")


def rule_c(ctx, cr):
    f = cr.need_fn("mach::program::Program::codegen")
    ctx.touch(f)
    ps = f.calls_to("mach::link::Link::push_symbol")
    cg = f.calls_to("mach::codegen::codegen")
    ast = f.calls_to("lang::line::Line::ast")
    ok = len(ps) == 1 and len(cg) == 1 and f.dominates(ps[0].bb, ast[0].bb) if ast else False
    ok = ok or (len(ps) == 1 and len(cg) == 1 and not f.can_reach(cg[0].bb, ps[0].bb))
    # the symbol block must come before codegen on the path of a numbered line
    ctx.check(len(ps) == 1 and len(cg) == 1 and f.can_reach(ps[0].bb, cg[0].bb), "C20.c",
              "Program::codegen/symbol-before-code", f.span,
              "the line's symbol is pushed before its code is generated",
              "the line symbol is not pushed before the line's code: jumps to that line land in "
              "the middle or after it")
    d = f.describe(ps[0].args[1]) if ps else ""
    ctx.check("line_number" in d or "Some).0" in d, "C20.c", "Program::codegen/symbol-is-line-number",
              f.span, "the pushed symbol is the line number (%s)" % d[:60])
    lk = cr.need_fn("mach::program::Program::link")
    ctx.touch(lk)
    st = lk.field_stores("direct_address")
    okd = bool(st) and all("Link::len" in lk.describe_value(v) for _b, _s, v in st)
    ctx.check(okd, "C20.c", "Program::link/direct-address", lk.span,
              "direct_address is the length of the linked program")
    sd = cr.need_fn("mach::link::Link::set_start_of_direct")
    ctx.touch(sd)
    ins = sd.calls_matching(r"BTreeMap::<K, V, A>::insert$")
    key = sd.describe(ins[0].args[1]) if ins else ""
    ctx.check("max_value()" in key and "Add" in key and "const:1" in key, "C20.c",
              "set_start_of_direct/symbol", sd.span, "direct code starts at symbol max_value()+1")


def rule_d(ctx, cr):
    writers = {}
    for p, f in cr.fns.items():
        for b, st, v in f.field_stores("current_symbol"):
            if st["place"]["proj"][-1].get("adt") == "mach::link::Link":
                writers.setdefault(p, []).append(f.describe_value(v))
    want = {"mach::link::Link::append", "mach::link::Link::clear", "mach::link::Link::next_symbol",
            "mach::link::Link::link"}
    ctx.check(set(writers) == want, "C20.d", "current_symbol/writers", "",
              "written by append, clear, next_symbol, link",
              "current_symbol is written by %s" % sorted(writers))
    ns = cr.need_fn("mach::link::Link::next_symbol")
    ctx.touch(ns)
    ok = any(st["rv"]["k"] == "binop" and st["rv"]["op"].startswith("Sub")
             and ns.describe(st["rv"]["r"]) == "const:1" for b, i, st in ns.assigns())
    ctx.check(ok, "C20.d", "next_symbol/decrements", ns.span, "allocates -1, -2, ...")
    lk = cr.need_fn("mach::link::Link::link")
    so = lk.calls_matching(r"BTreeMap::<K, V, A>::split_off$")
    ctx.check(len(so) == 1 and "const:0" in lk.describe(so[0].args[1]), "C20.d",
              "link/drops-local-symbols", lk.span, "symbols below 0 are dropped after linking")
    z = [v for b, st, v in lk.field_stores("current_symbol")]
    ctx.check(len(z) == 1 and lk.describe_value(z[0]) == "const:0", "C20.d", "link/resets-counter",
              lk.span, "the local symbol counter restarts at 0")
