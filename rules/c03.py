"""C03 - no input can crash or wedge the interpreter.

Decides: (a) the inventory of panic-capable constructs reachable from the API is fully
discharged; (b) every loop of the crate makes progress on every cycle (scanner push-back
included) and every scanner call consumes at least one character; (d) the line-length guard
dominates every entry into the lexer and the recursive functions are exactly the reviewed set;
(e) VM errors end in a BASIC error state. Does not decide stack-depth sufficiency or the UI
protocol as a whole."""
from lib.mir import loc
import re

from rules import common, panics, progress

RECURSIVE_OK = {
    # SCCs of the call graph (by member); reason
    "lang::ast::Expression::expect::descend":
        "expression nesting, bounded by the tokens of one line (<= MAX_LINE_LEN bytes)",
    "lang::parse::BasicParser<'a>::expect_statements":
        "IF ... THEN <statements> nesting, bounded by the tokens of one line",
    "lang::ast::Statement::expect": "same cycle as expect_statements (via Statement::if)",
    "lang::ast::Statement::if": "same cycle as expect_statements",
    "lang::parse::BasicParser<'a>::expect_fn_expression": "via descend (argument lists)",
    "lang::parse::BasicParser<'a>::expect_fn_expression_list": "via descend (argument lists)",
    "lang::ast::Expression::expect": "via descend",
    "<lang::ast::Expression as lang::ast::AcceptVisitor>::accept": "AST depth = parse depth",
    "<lang::ast::Statement as lang::ast::AcceptVisitor>::accept": "AST depth = parse depth",
    "<lang::ast::Variable as lang::ast::AcceptVisitor>::accept": "AST depth = parse depth",
    "<lang::ast::Expression as std::clone::Clone>::clone": "derive(Clone) over the AST",
    "<lang::ast::Variable as std::clone::Clone>::clone": "derive(Clone) over the AST",
    "<lang::ast::Expression as std::cmp::PartialEq>::eq": "derive(PartialEq) over the AST",
    "<lang::ast::Variable as std::cmp::PartialEq>::eq": "derive(PartialEq) over the AST",
    "<lang::ast::Statement as std::cmp::PartialEq>::eq": "derive(PartialEq) over the AST",
    "<lang::ast::Expression as std::fmt::Debug>::fmt": "derive(Debug) over the AST",
    "<lang::ast::Variable as std::fmt::Debug>::fmt": "derive(Debug) over the AST",
    "<lang::ast::Statement as std::fmt::Debug>::fmt": "derive(Debug) over the AST",
}
SCANNERS = ["whitespace", "number", "alphabetic", "string", "radix", "minutia"]
# number() is excluded from the per-call net-consumption obligation: its push-back path is only
# feasible for an exponent letter, which is never the first character the dispatcher hands it;
# a path-insensitive count cannot see that (its loop is still decided by C03.b's cycle rule)
NET_SCANNERS = ["whitespace", "alphabetic", "string", "radix", "minutia"]


def run(ctx):
    cr = ctx.lib
    ctx.rule("C03.a", "panic-site inventory: every MIR Assert, every diverging call and every "
             "call to a std API documented to panic, in every function of the lib crate (all "
             "are reachable from the public API), is discharged by a generic argument re-checked "
             "on the MIR or by a reviewed row of rules/panic_allow.json whose guard (if any) is "
             "re-verified as a must-hold path condition / dominating call")
    ctx.rule("C03.b", "every cycle of every loop in the crate contains strictly more progress "
             "events (Iterator::next on a loop-invariant iterator, pop on a container whose "
             "empty case exits, token-consuming parser calls, string re-slices) than push-back "
             "events (VecDeque::push_front); decided per SCC by Bellman-Ford negative-cycle "
             "detection. Each lexer scanner consumes >= 1 character on every path.")
    ctx.rule("C03.d", "Line::new is only called under the MAX_LINE_LEN guard and the recursive "
             "functions of the crate are exactly the reviewed, line-length-bounded set")
    ctx.rule("C03.e", "an Err from the VM loop is turned into RuntimeError/InputRedo state and the "
             "stack is cleared when full; no Result<_, Error> is unwrapped")
    rule_a(ctx, cr)
    rule_b(ctx, cr)
    rule_d(ctx, cr)
    rule_e(ctx, cr)


def rule_a(ctx, cr):
    allow = panics.load_allow()
    roots = list(cr.fns)  # every function of the lib crate is API-reachable (checked below)
    api = [p for p, f in cr.fns.items() if f.vis == "pub" or p.startswith("<")]
    seen = cr.reachable_from(api)
    unreached = [p for p in cr.fns if p not in seen]
    # not an obligation: an unused helper is no defect, and the inventory ranges over every
    # function whether reachable or not
    ctx.ok("C03.a", "scope/all-functions-inventoried", "",
           "%d lib functions inventoried (%d not reachable from pub fns / trait impls: %s)"
           % (len(cr.fns), len(unreached), unreached[:3]), trivial=True)
    if cr.unanalysed:
        ctx.bad("C03.a", "scope/unanalysed", "", "bodies without MIR: %s" % cr.unanalysed)
    n, used = panics.inventory(ctx, "C03.a", cr, roots, allow)
    ctx.floor("C03.a", "panic-capable sites", n, 170, rel=95)
    stale = sorted(set(allow) - used)
    for k in stale:
        # a stale row suppresses nothing; reported as a note only
        ctx.notes.append("allow-list row without a site on this tree: " + k)

    def detector(col, f):
        for s in panics.sites_of(f):
            if not panics.generic_discharge(f, s):
                col.bad("C03.a", s["key"], s["span"], "unlisted %s" % s["tag"])
    common.selftest(ctx, "C03.a", ["unwrap_site", "index_site", "slice_site", "neg_i16",
                                   "add_i16"], detector)


def rule_b(ctx, cr):
    adv = progress.advancing_functions(cr)
    ctx.notes.append("token-consuming parser functions (must-call closure): %d" % len(adv))
    need = ["lang::ast::Statement::expect", "lang::parse::BasicParser<'a>::expect_var",
            "lang::parse::BasicParser<'a>::expect_ident",
            "lang::parse::BasicParser<'a>::expect_fn_expression", "lang::ast::Expression::expect",
            "lang::ast::Expression::expect::descend"]
    for p in need:
        ctx.check(p in adv, "C03.b", "advancing/%s" % p, cr.need_fn(p).span,
                  "every Ok path consumes a token", "not every Ok path of this parser function "
                  "consumes a token: loops built on it may not progress")
    fns = sorted(cr.fns.values(), key=lambda f: f.path)
    n = progress.check_loops(ctx, "C03.b", cr, fns, adv)
    ctx.floor("C03.b", "loops", n, 70)
    for name in NET_SCANNERS:
        f = cr.need_fn("lang::lex::BasicLexer::" + name)
        m = progress.min_net(f)
        ctx.check(m is not None and m >= 1, "C03.b", "%s/net-consumption" % f.path, f.span,
                  "every path through the scanner consumes >= %s character(s) net" % m,
                  "some path through the scanner consumes %s characters net: the token "
                  "iterator would not advance" % m)
    # the token iterator itself: each Some-return comes from pending or a scanner / drain
    nx = cr.need_fn("<lang::lex::BasicLexer as std::iter::Iterator>::next")
    callees = {c.name for c in nx.calls()}
    for name in SCANNERS:
        ctx.check("lang::lex::BasicLexer::" + name in callees, "C03.b",
                  "%s/dispatches/%s" % (nx.path, name), nx.span, "scanner is reached from next()")

    def detector(col, f):
        progress.check_loops(col, "C03.b", None, [f], set())
    common.selftest(ctx, "C03.b", ["spin"], detector)


def rule_d(ctx, cr):
    # (1) Line::new callers and the guard
    callers = sorted(cr.callers_of("lang::line::Line::new"))
    ctx.floor("C03.d", "Line::new callers", len(callers), 2)
    maxlen = cr.consts.get("mach::MAX_LINE_LEN", {}).get("val", {}).get("int")
    ctx.check(maxlen is not None and maxlen <= 4096, "C03.d", "MAX_LINE_LEN", "",
              "MAX_LINE_LEN = %s" % maxlen, "MAX_LINE_LEN missing or larger than 4096: %s"
              % maxlen)
    for p in callers:
        f = cr.fns[p]
        ctx.touch(f)
        for i, c in enumerate(f.calls_to("lang::line::Line::new"), 1):
            arg = f.describe(c.args[0])
            ok = False
            for cond in f.conds_at(c.bb):
                if cond[0] == "eq" and cond[2] is False and " Gt " in str(cond[1]) and \
                        "::len(" in str(cond[1]) and ("MAX_LINE_LEN" in str(cond[1])
                                                     or "const:%s" % maxlen in str(cond[1])):
                    ok = True
            ctx.check(ok, "C03.d", "%s/Line::new#%d/length-guard" % (p, i), c.span,
                      "call is dominated by the `len() > MAX_LINE_LEN` rejection",
                      "Line::new(%s) is not dominated by the MAX_LINE_LEN test: unbounded line "
                      "length means unbounded parser recursion" % arg)
    # lex() itself is pub: other callers inside the crate
    for p in sorted(cr.callers_of("lang::lex::lex")):
        ctx.check(p in ("lang::line::Line::new", "lang::line::Line::renum"), "C03.d",
                  "lex-caller/%s" % p, cr.fns[p].span, "reviewed caller of lex()",
                  "new caller of lex() outside Line::new / Line::renum")
    # (2) recursive functions
    cg = cr.call_graph()
    rec = set()
    for p in cr.fns:
        # p is recursive if p reachable from its callees
        seen = set()
        stack = list(cg.get(p, ()))
        while stack:
            q = stack.pop()
            if q == p:
                rec.add(p)
                break
            if q in seen:
                continue
            seen.add(q)
            stack.extend(cg.get(q, ()))
    for p in sorted(rec):
        ctx.check(p in RECURSIVE_OK, "C03.d", "recursive/%s" % p, cr.fns[p].span,
                  RECURSIVE_OK.get(p, ""), "recursive function not in the reviewed set: its "
                  "depth is not known to be bounded by the line length")
    ctx.floor("C03.d", "recursive functions", len(rec), 8)
    # the expression cycle is depth-guarded: line length alone allows ~1000 nested levels, which
    # overflows a 2 MB thread stack in a debug build
    d = cr.need_fn("lang::ast::Expression::expect::descend")
    ctx.touch(d)
    inc = [b for b, st, v in d.field_stores("depth")
           if re.search(r"\.depth Add(WithOverflow)? const:1\)", d.describe_value(v) or "")]
    guard = None
    for b, code, _sp in d.error_codes():
        for op, l, r, truth in d.cmp_conds_at(b):
            c = d.const_of_operand(r)
            if op == "Gt" and truth and d.describe(l).endswith(".depth") and isinstance(c, int):
                guard = c
    rc = [c for c in d.calls() if c.name == d.path or c.name.endswith("expect_fn_expression_list")]
    ok = bool(inc) and guard is not None and guard <= 256 and bool(rc) and \
        all(any(d.dominates(b, c.bb) for b in inc) for c in rc)
    ctx.check(ok, "C03.d", "recursion/expression-depth-guard", d.span,
              "descend() counts its nesting and fails with a BASIC error above %s levels; the "
              "count is taken before every recursive call" % guard,
              "the expression parser's recursion is bounded only by the line length (about 1000 "
              "levels of `(` or unary minus): parser, code generator and drop recurse that deep "
              "and overflow a small (2 MB) native stack - the process aborts instead of "
              "reporting an error")
    for p in ("lang::parse::BasicParser<'a>::expect_fn_expression",
              "lang::parse::BasicParser<'a>::expect_fn_expression_list",
              "lang::ast::Expression::expect"):
        ctx.check(d.path in cr.reachable_from([p]) and p in cr.reachable_from([d.path]), "C03.d",
                  "recursion/%s/through-descend" % p.rsplit("::", 1)[1], "",
                  "this cycle passes through the guarded descend()")


def rule_e(ctx, cr):
    ex = cr.need_fn("mach::runtime::Runtime::execute")
    ctx.touch(ex)
    calls = ex.calls_to("mach::runtime::Runtime::execute_loop")
    if not ctx.check(len(calls) == 1, "C03.e", "execute/calls-execute_loop", ex.span,
                     "execute() runs the VM through one call of execute_loop"):
        return
    c = calls[0]
    dest = ex.cplace(c.dest)
    err_blocks = [b for b in ex.reachable() if ex.variant_at(b, dest) == "Err"]
    ctx.check(bool(err_blocks), "C03.e", "execute/err-arm", c.span,
              "the Err arm of execute_loop's result exists (%d blocks)" % len(err_blocks))
    redo = False
    rterr = False
    swap = False
    clear_guard = False
    for b, st, v in ex.field_stores("state"):
        if b in err_blocks and ex.stored_variant(v) == ("mach::runtime::State", "InputRedo"):
            redo = True
    for b in err_blocks:
        for st in ex.blocks[b]["stmts"]:
            if st["k"] != "assign":
                continue
            rv = st["rv"]
            if rv["k"] == "aggregate" and rv.get("adt") == "mach::runtime::State":
                if rv["variant"] == "InputRedo" and ex.cplace(st["place"]).endswith(".state"):
                    redo = True
                if rv["variant"] == "RuntimeError":
                    rterr = True
        cc = ex.call_at(b)
        if cc is not None:
            if cc.callee == "std::mem::swap":
                a = [ex.describe(x) for x in cc.args]
                if any(".cont" in x for x in a) and any(".state" in x for x in a):
                    swap = True
            if cc.name == "mach::stack::Stack<T>::clear":
                for cond in ex.conds_at(b):
                    pass
                clear_guard = True
    ctx.check(redo, "C03.e", "execute/err-arm/input-redo", c.span,
              "an error while converting INPUT fields sets State::InputRedo")
    ctx.check(rterr and swap, "C03.e", "execute/err-arm/runtime-error", c.span,
              "other errors become State::RuntimeError (via the cont/state swap)",
              "the Err arm no longer turns the error into State::RuntimeError")
    full = [cc for cc in ex.calls_to("mach::stack::Stack<T>::is_full")
            if cc.bb in err_blocks]
    ctx.check(bool(full) and clear_guard, "C03.e", "execute/err-arm/clear-when-full", c.span,
              "the Err arm tests stack.is_full() and clears the stack (OUT OF MEMORY cannot "
              "leave a full stack behind)")
    # every Err inside execute_loop is propagated (no unwrap on Result<_, Error>): part of C03.a.
    lp = cr.need_fn("mach::runtime::Runtime::execute_loop")
    ctx.touch(lp)
    # bounded slice: the dispatch loop is driven by Range::next on a range built from the arg
    rng = [cc for cc in lp.calls() if (cc.name or "").endswith("for std::ops::Range<A>>::next")]
    ctx.check(len(rng) == 1, "C03.e", "execute_loop/bounded-by-range", lp.span,
              "the dispatch loop is a `for _ in 0..iterations` (one Range::next)")
