"""Panic-site inventory (P-rule, DESIGN 2.3): enumerate every panic-capable construct in the
functions reachable from the public API and require each to be discharged, either by a
generic argument the rule re-checks on the MIR, or by a reviewed entry of panic_allow.json."""
import json
import os
import re

from lib.mir import Call, loc, op_const, const_val

HERE = os.path.dirname(os.path.abspath(__file__))
ALLOW_FILE = os.path.join(HERE, "panic_allow.json")

# std / dependency API documented to panic for some argument or state. (callee regex, condition)
PANICKY = [
    (r"::Option::<T>::(unwrap|expect|unwrap_unchecked)$", "None"),
    (r"::Result::<T, E>::(unwrap|expect|unwrap_err|expect_err|unwrap_unchecked)$", "Err/Ok"),
    (r"^std::ops::Index(Mut)?::index(_mut)?$", "index out of bounds / not a char boundary"),
    (r"^std::string::String::(insert|insert_str|remove|replace_range|drain|split_off|truncate)$",
     "index out of bounds / not a char boundary"),
    (r"^std::vec::Vec::<T, A>::(insert|remove|swap_remove|drain|splice|split_off|"
     r"extend_from_within)$", "index out of bounds"),
    (r"^std::collections::VecDeque::<T, A>::(drain|swap|split_off|range|range_mut|insert)$",
     "index out of bounds"),
    (r"^core::slice::<impl \[T\]>::(windows|chunks|chunks_exact|rchunks|split_at|split_at_mut|"
     r"copy_from_slice|clone_from_slice|swap|rotate_left|rotate_right|copy_within|"
     r"select_nth_unstable)$", "size 0 / index out of bounds"),
    (r"^(core|std)::str::<impl str>::(split_at|split_at_mut|repeat)$",
     "not a char boundary / capacity overflow"),
    (r"^std::collections::BTreeMap::<K, V, A>::(range|range_mut)$", "start > end"),
    (r"^core::num::<impl [iu](8|16|32|64|128|size)>::(pow|abs|neg|div_euclid|rem_euclid|"
     r"next_power_of_two|isqrt|ilog|ilog2|ilog10|strict_\w+)$", "overflow"),
    (r"^std::ops::(Add|Sub|Mul|Div|Rem|Neg|Shl|Shr)(Assign)?::\w+$", "integer overflow (ints)"),
    (r"^std::iter::Iterator::step_by$", "step 0"),
    (r"from_u32_unchecked|from_digit$|::to_digit$", "invalid radix/value"),
    (r"RefCell<T>::(borrow|borrow_mut)$", "already borrowed"),
    (r"^std::process::(exit|abort)$", "terminates the process"),
    (r"^std::thread::|^std::sync::mpsc::|::Mutex::<T>::lock$", "thread/poison"),
    (r"^std::time::", "clock arithmetic"),
    (r"copy_nonoverlapping|::unreachable_unchecked$|^std::mem::(transmute|zeroed|uninitialized)",
     "unsafe"),
]
PANICKY_RX = [(re.compile(rx), why) for rx, why in PANICKY]
INT_TY = re.compile(r"^&?(mut )?[iu](8|16|32|64|128|size)$")


def load_allow():
    with open(ALLOW_FILE) as f:
        return json.load(f)


def short(callee):
    c = callee or "<indirect>"
    c = re.sub(r"<impl [^>]*>", "", c)
    c = re.sub(r"::<[^>]*>", "", c)
    parts = [p for p in c.split("::") if p]
    return "::".join(parts[-2:]) if len(parts) >= 2 else c


def sites_of(f):
    """list of dicts: kind, detail, span, bb, ops(desc), macros, cond_const"""
    out = []
    for b in f.reachable():
        t = f.term(b)
        if t["k"] == "assert":
            kind = t["kind"]
            if kind in ("MisalignedPointerDereference", "NullPointerDereference"):
                tag = "ptrcheck"
            elif kind == "Overflow":
                tag = "assert:Overflow(%s,%s)" % (t["detail"], t.get("ty"))
            elif kind in ("OverflowNeg", "DivisionByZero", "RemainderByZero"):
                tag = "assert:%s(%s)" % (kind, t.get("ty"))
            else:
                tag = "assert:" + kind
            out.append({"tag": tag, "span": t["span"], "bb": b, "term": t,
                        "ops": [f.describe(o) for o in t.get("ops", [])],
                        "cond": f.describe(t["cond"]),
                        "macros": t["span"].get("macros", [])})
        elif t["k"] == "call":
            c = Call(f, b, t)
            callee = c.callee or ""
            if t["target"] is None:
                mac = [m for m in c.macros if "assert" in m or "panic" in m
                       or "unreachable" in m or "todo" in m or "unimplemented" in m]
                dbg = any(m.startswith("debug_assert") for m in c.macros)
                tag = "diverge:%s%s" % (short(callee), ":debug" if dbg else "")
                out.append({"tag": tag, "span": c.span, "bb": b, "term": t, "ops": [],
                            "macros": c.macros, "debug": dbg})
                continue
            if t.get("callee_local"):
                continue
            hit = None
            for rx, why in PANICKY_RX:
                if rx.search(callee) or (c.resolved and rx.search(c.resolved)):
                    hit = why
                    break
            if hit is None:
                continue
            if callee.startswith("std::ops::") and "Index" not in callee:
                # operator trait call: panics only for integer impls
                if not (c.self_ty and INT_TY.match(c.self_ty)):
                    continue
            tag = "call:%s" % short(callee)
            if "Index" in callee and c.self_ty:
                tag += "<%s>" % c.self_ty
            out.append({"tag": tag, "span": c.span, "bb": b, "term": t,
                        "ops": [f.describe(a) for a in c.args], "macros": c.macros,
                        "why": hit})
    out.sort(key=lambda s: (s["span"]["line"], s["span"]["col"], s["tag"]))
    n = {}
    for s in out:
        n[s["tag"]] = n.get(s["tag"], 0) + 1
        s["key"] = "%s/%s#%d" % (f.path, s["tag"], n[s["tag"]])
    return out


def generic_discharge(f, s):
    """arguments that need no table row; returns reason or None"""
    tag = s["tag"]
    if tag == "ptrcheck":
        return ("compiler-inserted debug pointer check on a Box/Vec allocation produced by safe "
                "code (cannot be null or misaligned)")
    t = s["term"]
    ops = s["ops"]
    if tag == "assert:BoundsCheck" and len(ops) == 2 and ops[1].startswith("const:"):
        # ttt[k] on an item yielded by slice.windows(n) with k < n
        k = _int(ops[1])
        ns = [_int(f.describe(c.args[1])) for c in f.calls_matching(r"<impl \[T\]>::windows$")]
        root = t["ops"][0]
        v = f.value_of_operand(root)
        src = _root_call(f, v)
        if (k is not None and ns and all(n is not None and k < n for n in ns) and src
                and "Iterator::next" in (src.callee or "")
                and ("Windows" in (src.resolved or "") or "Enumerate" in (src.resolved or ""))):
            return "constant index %d into an item of windows(%s)" % (k, min(ns))
    if tag == "call:slice::windows" and len(ops) == 2 and (_int(ops[1]) or 0) > 0:
        return "windows(%s): size is a non-zero constant" % ops[1][6:]
    if tag in ("call:Vec::drain", "call:VecDeque::drain", "call:String::drain") and \
            len(ops) == 2 and ops[1].startswith("std::ops::RangeFull"):
        return "drain(..) over the full range cannot be out of bounds"
    if tag == "call:BTreeMap::range" and len(ops) == 2 and \
            ops[1].startswith(("std::ops::RangeFull", "std::ops::RangeFrom", "std::ops::RangeTo::",
                               "std::ops::RangeToInclusive")):
        return "a range with a single bound cannot be inverted"
    if tag in ("call:String::insert", "call:String::insert_str") and len(ops) == 3 \
            and ops[1] == "const:0":
        return "insertion at byte 0 is always a char boundary"
    if tag.startswith("assert:RemainderByZero") or tag.startswith("assert:DivisionByZero"):
        m = re.match(r"^\(const:(-?\d+) Eq const:0\)$", s.get("cond", ""))
        if m and int(m.group(1)) != 0:
            return "divisor is the non-zero constant %s" % m.group(1)
    if tag.startswith("assert:Overflow(Add,") and t.get("ty") in ("usize", "isize", "i32", "u32"):
        # counter/position incremented by a small literal: cannot reach the type's max within
        # the line-length / 64K pool limits; excluded when an operand is a sign-extending cast
        ops = s["ops"]
        consts = [o for o in ops if o.startswith("const:")]
        if len(consts) == 1 and not any("cast<" in o for o in ops):
            try:
                v = int(consts[0][6:])
            except ValueError:
                v = None
            if v is not None and 0 <= v <= 1024 and t.get("ty") in ("usize", "isize"):
                return ("%s counter/offset + %d: bounded by container sizes and line length, far "
                        "below %s::MAX" % (t.get("ty"), v, t.get("ty")))
    return None


def _int(desc):
    if isinstance(desc, str) and desc.startswith("const:"):
        try:
            return int(desc[6:])
        except ValueError:
            return None
    return None


def _root_call(f, v, depth=0):
    """the call whose result a (projected) value is rooted in"""
    if v is None or depth > 6:
        return None
    if v["k"] == "call":
        return v["call"]
    if v["k"] == "place":
        return _root_call(f, f.value_of_local(v["place"]["local"]), depth + 1)
    if v["k"] == "rv":
        rv = v["rv"]
        if rv["k"] in ("unop", "cast", "use"):
            return _root_call(f, f.value_of_operand(rv.get("o") or rv.get("op")), depth + 1)
        if rv["k"] in ("ref", "discriminant"):
            return _root_call(f, f.value_of_local(rv["place"]["local"]), depth + 1)
    return None


def ascii_only_predicate(pf):
    """a char predicate built only from comparisons with ASCII constants and char::is_ascii_*"""
    for c in pf.calls():
        nm = c.callee or ""
        if not re.search(r"<impl char>::is_ascii_\w+$", nm):
            return False, "calls %s" % nm
    for b, i, st in pf.assigns():
        rv = st["rv"]
        for o in ([rv.get("l"), rv.get("r")] if rv["k"] == "binop" else []):
            c = op_const(o)
            if c is not None and "char" in c and c.get("int", 0) >= 128:
                return False, "compares with non-ASCII %r" % c["char"]
    for b in pf.reachable():
        t = pf.term(b)
        if t["k"] == "switch" and t.get("discr_ty") == "char":
            for v, _t in t["targets"]:
                if v >= 128:
                    return False, "switches on non-ASCII value %d" % v
    return True, ""


def verify_guard(f, s, entry):
    """re-verify a listed guard on the current MIR. guard forms:
       {"cond": needle, "value": bool}   a must-hold path condition containing needle
       {"const_lt": [arg_index, bound]}   constant operand below bound
    returns (ok, text)"""
    g = entry.get("guard")
    if not g:
        return True, ""
    if "any" in g:
        why = []
        for sub in g["any"]:
            ok, text = verify_guard(f, s, {"guard": sub})
            if ok:
                return True, text
            why.append(text)
        return False, "none of the accepted forms of the guard holds here: " + "; ".join(why[:2])
    if "cond" in g:
        want = g.get("value", True)
        needles = g["cond"] if isinstance(g["cond"], list) else [g["cond"]]
        for c in f.conds_at(s["bb"]):
            for nd in needles:
                if c[0] in ("eq",) and nd in str(c[1]) and c[2] is want:
                    return True, "guard `%s`=%s dominates" % (nd, want)
                if c[0] in ("variant",) and nd in ("%s is %s" % (c[1], c[3])):
                    return True, "guard `%s` dominates" % nd
        return False, "listed guard `%s`=%s no longer dominates this site" % (g["cond"], want)
    if "dom_call" in g:
        for c in f.calls():
            if g["dom_call"] in (c.callee or "") and c.bb != s["bb"] and \
                    f.dominates(c.bb, s["bb"]):
                return True, "a call to `%s` dominates" % g["dom_call"]
        return False, "no call to `%s` dominates this site any more" % g["dom_call"]
    if "ascii_only_fns" in g:
        cr = f.crate
        for path in g["ascii_only_fns"]:
            pf = cr.fn(path)
            if pf is None:
                return False, "predicate %s not found" % path
            ok, why = ascii_only_predicate(pf)
            if not ok:
                return False, ("%s is no longer ASCII-only (%s): a byte offset advanced by one "
                               "per accepted character can land inside a multi-byte character"
                               % (path, why))
        # the loop that advances the offset may only classify characters with those predicates
        allowed = set(g["ascii_only_fns"]) | set(g.get("loop_calls", []))
        for scc in f.sccs():
            for b in scc:
                c = f.call_at(b)
                if c is not None and c.name not in allowed and (c.callee or "") not in allowed:
                    return False, "offset loop calls %s, which is outside the reviewed set" % c.name
        return True, "character predicates %s accept one-byte characters only" % \
            [p.rsplit("::", 1)[-1] for p in g["ascii_only_fns"]]
    if "upper_bound" in g:
        n = g["upper_bound"]
        for op, l, r, truth in f.cmp_conds_at(s["bb"]):
            c = f.const_of_operand(r)
            if not isinstance(c, int):
                continue
            if (op == "Gt" and not truth and c <= n) or (op == "Ge" and not truth and c <= n + 1) \
                    or (op == "Le" and truth and c <= n) or (op == "Lt" and truth and c <= n + 1):
                return True, "an upper bound <= %d dominates" % n
        return False, "no upper-bound test (<= %d) dominates this site any more" % n
    if g.get("recorded_in_one_loop"):
        # the indices consumed here were recorded by Vec::push into a list that is consumed with
        # pop(): valid only if all pushes happen in ONE loop over windows().enumerate() (so the
        # list is sorted by index and pop() yields descending indices)
        from rules.progress import receiver_local
        pops = [c for c in f.calls_matching(r"Vec::<T, A>::pop$")]
        recs = {receiver_local(f, c)[1] for c in pops}
        pushes = [c for c in f.calls_matching(r"Vec::<T, A>::push$")
                  if receiver_local(f, c)[1] in recs]
        if not pushes:
            return False, "no recording push found for the popped index list"
        sccs = [set(x) for x in f.sccs()]
        homes = set()
        for c in pushes:
            home = [i for i, sc in enumerate(sccs) if c.bb in sc]
            homes.add(home[0] if home else -1 - c.bb)
        if len(homes) != 1:
            return False, ("the index list is filled by %d separate loops: it is no longer sorted "
                           "by index, so replacing from the back can hit shifted positions"
                           % len(homes))
        return True, "all %d recording pushes are in one loop" % len(pushes)
    if "backslice" in g:
        idx, needle = g["backslice"]
        t = s["term"]
        try:
            names = f.back_slice_calls(t["args"][idx])
        except (IndexError, KeyError):
            names = set()
        if any(needle in n for n in names):
            return True, "operand %d derives from `%s`" % (idx, needle)
        return False, "operand %d no longer derives from `%s` (got %s)" % (
            idx, needle, sorted(n.rsplit("::", 1)[-1] for n in names)[:8])
    if "dom_incr" in g:
        import re as _re
        fld = g["dom_incr"]
        for b, st, v in f.field_stores(fld):
            if _re.search(r"\.%s Add(WithOverflow)? const:1\)" % fld, f.describe_value(v) or "") \
                    and f.dominates(b, s["bb"]) and b != s["bb"]:
                return True, "`%s += 1` of the same activation dominates this `-= 1`" % fld
        return False, "no dominating `%s += 1` any more" % fld
    if "typestate" in g:
        from lib import typestate
        ts = g["typestate"]
        vm = typestate.VariantMay(f, ts["adt"], ts["place"])
        if not vm.reachable(s["bb"]):
            return True, "unreachable in the variant may-analysis of %s" % ts["place"]
        may = vm.at(s["bb"]) or frozenset()
        extra = sorted(may - set(ts["within"]))
        if not extra:
            return True, "%s can only be %s here" % (ts["place"], sorted(may))
        return False, ("%s may be %s when control reaches this assertion (it only admits %s)"
                       % (ts["place"], extra, ts["within"]))
    if "op_const_below" in g:
        idx, bound = g["op_const_below"]
        try:
            o = s["ops"][idx]
            v = int(o[6:]) if o.startswith("const:") else None
        except (IndexError, ValueError):
            v = None
        if v is not None and v < bound:
            return True, "constant operand %d < %d" % (v, bound)
        return False, "operand %d is not a constant below %d" % (idx, bound)
    return True, ""


def inventory(ctx, rule, crate, roots, allow, scope_pred=None):
    seen = crate.reachable_from(roots)
    used = set()
    n_sites = 0
    for p in sorted(seen):
        if scope_pred and not scope_pred(p):
            continue
        f = crate.fns[p]
        ctx.touch(f)
        for s in sites_of(f):
            n_sites += 1
            key = s["key"]
            why = generic_discharge(f, s)
            if why:
                ctx.ok(rule, key, s["span"], why, trivial=True)
                continue
            e = allow.get(key)
            if e is None:
                chain = " -> ".join(crate.call_chain(seen, p)[-4:])
                ctx.bad(rule, key, s["span"],
                        "unlisted panic-capable construct %s operands=%s (reachable: %s)"
                        % (s["tag"], s["ops"], chain))
                continue
            used.add(key)
            ok, txt = verify_guard(f, s, e)
            if ok:
                ctx.ok(rule, key, s["span"], "[%s] %s %s" % (e["class"], e["reason"], txt))
            else:
                ctx.bad(rule, key, s["span"], txt)
    return n_sites, used


def draft(crate, roots):
    """print a draft allow-list for triage"""
    seen = crate.reachable_from(roots)
    out = {}
    for p in sorted(seen):
        f = crate.fns[p]
        for s in sites_of(f):
            if generic_discharge(f, s):
                continue
            out[s["key"]] = {"class": "?", "reason": "", "_where": loc(s["span"]),
                             "_ops": s["ops"], "_macros": s["macros"]}
    return out
