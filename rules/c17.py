"""C17 - INPUT parses replies as documented and retries atomically per reply.

Decides: the staging protocol between the INPUT template and its handlers (what is pushed, in
which order, how many entries the final handler pops); the capitalisation flag constants; the
prompt suffix; the retry mechanics (who may request a redo, the unwind to the frame marker,
re-pointing pc at the INPUT opcode); the text-to-number path shared with VAL.
Does not decide reply parsing over all strings."""
import re

from rules import common, tables


def run(ctx):
    cr = ctx.lib
    ctx.rule("C17.a", "template/handler agreement: Generator::input stages prompt, caps, count, "
             "then per variable Input(name) + store, then Input(\"\"); do_input pushes a Return "
             "marker below the fields (reversed); the final Input(\"\") pops exactly 4 entries "
             "(marker, count, caps, prompt); execute_input puts caps and count back in order")
    ctx.rule("C17.b", "caps flag: the leading-comma arm of Statement::input builds 0, the other "
             "arm -1, and execute_input reports is_caps = (caps != 0)")
    ctx.rule("C17.c", "the prompt is followed by '?' and then ' '")
    ctx.rule("C17.d", "retry is atomic: State::InputRedo is only set by the field-count mismatch, "
             "the over-long reply and the InputRunning error arm; that arm unwinds to the Return "
             "marker and restores pc from it; Input in Running state re-points pc at itself; "
             "REDO FROM START is only built in the InputRedo arm")
    ctx.rule("C17.e", "numeric fields go through Val::from(&str), whose radix (&, &H) branch works "
             "on the unmodified text (no letter rewriting before from_str_radix); an empty field "
             "is 0; string fields lose one pair of enclosing quotes under the length/quote guard")
    rule_a(ctx, cr)
    rule_b(ctx, cr)
    rule_c(ctx, cr)
    rule_d(ctx, cr)
    rule_e(ctx, cr)
    ctx.rule("C17.f", "field count: do_input requests the redo under `expected != fields.len()` "
             "(an (in)equality, so too many fields are rejected like too few)")
    rule_f(ctx, cr)


def _ordered(f, calls):
    """program order: a before b when a reaches b but b does not reach a"""
    return sorted(calls, key=lambda c: sum(1 for o in calls if o.bb != c.bb
                                           and f.can_reach(o.bb, c.bb)
                                           and not f.can_reach(c.bb, o.bb)))


def _variant_on_way(f, bb, name):
    """a `variant == name` fact holds at bb or at one of its dominators"""
    for d in f.dominators().get(bb, ()):
        if any(c[0] == "variant" and c[3] == name for c in f.conds_at(d)):
            return True
    return False


def rule_a(ctx, cr):
    g = cr.need_fn("mach::codegen::Generator::input")
    ctx.touch(g)
    seq = []
    ems = [c for c in g.calls() if c.name in ("mach::link::Link::append", "mach::link::Link::push",
                                             "mach::codegen::VarItem::push_as_pop")]
    for c in _ordered(g, ems):
        if c.name.endswith("::push"):
            sv = g.stored_variant(g.value_of_operand(c.args[1]))
            d = g.describe(c.args[1])
            if sv and sv[1] == "Input":
                seq.append('Input("")' if "const:''" in d else "Input(var)")
            else:
                seq.append(sv[1] if sv else "?")
        else:
            seq.append(c.name.rsplit("::", 1)[1])
    want = ["append", "append", "Literal", "Input(var)", "push_as_pop", 'Input("")']
    ctx.check(seq == want, "C17.a", "Generator::input/template", g.span, " ".join(seq),
              "INPUT is compiled as %s (expected %s)" % (seq, want))
    # prompt first, caps second: first pop is prompt
    pops = _ordered(g, [c for c in g.calls_to("mach::stack::Stack<T>::pop")])
    apps = _ordered(g, g.calls_to("mach::link::Link::append"))
    if len(pops) == 2 and len(apps) == 2:
        from rules.c02 import _root_bb
        ok = _root_bb(g, apps[0].args[1]) == pops[0].bb and _root_bb(g, apps[1].args[1]) == pops[1].bb
        ctx.check(ok, "C17.a", "Generator::input/prompt-then-caps", g.span,
                  "the first popped operand (prompt) is staged first, caps second")
    d = cr.need_fn("mach::runtime::Runtime::do_input")
    ctx.touch(d)
    pushes = _ordered(d, d.calls_to("mach::stack::Stack<T>::push"))
    kinds = []
    for c in pushes:
        sv = d.stored_variant(d.value_of_operand(c.args[1]))
        kinds.append(sv[1] if sv else "field")
    ctx.check(kinds == ["Return", "field"], "C17.a", "do_input/marker-below-fields", d.span,
              "a Return(pc) marker is pushed first, then the fields",
              "do_input pushes %s: the redo unwind relies on a Return marker below the fields"
              % kinds)
    ctx.check(bool(d.calls_matching(r"Vec::<T, A>::pop$")), "C17.a", "do_input/fields-reversed",
              d.span, "fields are pushed last-to-first so that the first variable pops the first field")
    r = cr.need_fn("mach::runtime::Runtime::input")
    ctx.touch(r)
    final = [c for c in r.calls_to("mach::stack::Stack<T>::pop")
             if any(x[0] == "eq" and "is_empty" in str(x[1]) and x[2] is True
                    for x in r.conds_at(c.bb))]
    ctx.check(len(final) == 4, "C17.a", "input/final-pops-4", r.span,
              "Input(\"\") pops marker, count, caps and prompt",
              "the closing Input(\"\") pops %d entries (4 were staged): every completed INPUT "
              "leaves %+d entries on the stack" % (len(final), 4 - len(final)))
    per = [c for c in r.calls_to("mach::stack::Stack<T>::pop")
           if any(x[0] == "eq" and "is_empty" in str(x[1]) and x[2] is False
                  for x in r.conds_at(c.bb))]
    pp = [c for c in r.calls_to("mach::stack::Stack<T>::push")]
    ctx.check(len(per) == 1 and len(pp) == 3, "C17.a", "input/field-in-value-out", r.span,
              "each variable pops one field and pushes one value (3 alternative pushes)")
    e = cr.need_fn("mach::runtime::Runtime::execute_input")
    ctx.touch(e)
    po = _ordered(e, e.calls_to("mach::stack::Stack<T>::pop"))
    pu = _ordered(e, e.calls_to("mach::stack::Stack<T>::push"))
    ok = len(po) == 2 and len(pu) == 2
    if ok:
        from rules.c02 import _root_bb
        ok = _root_bb(e, pu[0].args[1]) == po[1].bb and _root_bb(e, pu[1].args[1]) == po[0].bb
    ctx.check(ok, "C17.a", "execute_input/restores-staging", e.span,
              "count and caps are popped and pushed back in their original order")


def rule_b(ctx, cr):
    p = cr.need_fn("lang::ast::Statement::input")
    ctx.touch(p)
    consts = {}
    for b, i, st in p.aggregates("lang::ast::Expression", "Integer"):
        comma = any(x[0] == "variant" and x[2] == "lang::token::Token" and x[3] == "Comma"
                    for x in p.conds_at(b))
        consts[comma] = p.const_of_operand(st["rv"]["ops"][1])
    ctx.check(consts == {True: 0, False: -1}, "C17.b", "Statement::input/caps-constants", p.span,
              "leading comma -> 0 (caps off), otherwise -1",
              "the caps flag constants are %s (leading comma must be the only 0)" % consts)
    e = cr.need_fn("mach::runtime::Runtime::execute_input")
    ok = False
    for b, i, st in e.assigns():
        rv = st["rv"]
        if rv["k"] == "binop" and rv["op"] == "Eq" and e.describe(rv["r"]) == "const:0" \
                and "Integer" in e.describe(rv["l"]):
            ok = True
    ev = [st for b, i, st in e.aggregates("mach::runtime::Event", "Input")]
    neg = any(st["rv"]["k"] == "unop" and st["rv"]["op"] == "Not" for b, i, st in e.assigns())
    ctx.check(ok and neg and len(ev) == 1, "C17.b", "execute_input/is_caps", e.span,
              "is_caps = !(caps == Integer 0)")


def rule_c(ctx, cr):
    e = cr.need_fn("mach::runtime::Runtime::execute_input")
    ps = [e.const_of_operand(c.args[1]) for c in _ordered(e, e.calls_matching(r"String::push$"))]
    ctx.check(ps == ["?", " "], "C17.c", "execute_input/prompt-suffix", e.span,
              "prompt + '?' + ' '", "the prompt suffix is %s" % ps)


def rule_d(ctx, cr):
    writers = set()
    for p, f in cr.fns.items():
        for b, s, v in f.field_stores("state"):
            if f.stored_variant(v) == ("mach::runtime::State", "InputRedo"):
                writers.add(p.rsplit("::", 1)[-1])
    ctx.check(writers == {"enter_input", "do_input", "execute"}, "C17.d", "InputRedo/writers", "",
              "redo is requested by enter_input (too long), do_input (field count) and the error "
              "arm of execute", "State::InputRedo is set by %s" % sorted(writers))
    ex = cr.need_fn("mach::runtime::Runtime::execute")
    ctx.touch(ex)
    # the unwind loop: pops until Val::Return and restores pc
    st = [(b, v) for b, s, v in ex.field_stores("pc")]
    ok = len(st) == 1 and any(c[0] == "variant" and c[3] == "Return" for c in ex.conds_at(st[0][0]))
    ctx.check(ok, "C17.d", "execute/unwind-to-marker", ex.span,
              "on a conversion error the stack is unwound to the Return marker and pc restored",
              "the redo path no longer restores pc from the Return marker: the retry would resume "
              "after the INPUT statement")
    # which errors become a redo: the arm must look at the error; subscripts and user functions
    # of the INPUT targets run in the same window and can fail for reasons no reply can cure
    calls = ex.calls_to("mach::runtime::Runtime::execute_loop")
    looked = False
    if len(calls) == 1:
        dest = ex.cplace(calls[0].dest)
        for b, s_, v in ex.field_stores("state"):
            if ex.stored_variant(v) != ("mach::runtime::State", "InputRedo"):
                continue
            if not ex.dominates(calls[0].bb, b):
                continue
            for c in ex.conds_at(b):
                txt = str(c[1])
                if ("(%s as Err)" % dest) in txt and c[0] in ("variant", "variantin", "eq", "ne", "in"):
                    looked = True
    ctx.check(looked, "C17.d", "execute/redo-inspects-error", ex.span,
              "only a conversion error of a reply field is turned into REDO FROM START",
              "the InputRunning error arm turns EVERY runtime error into REDO FROM START without "
              "looking at it, and unwinds to the nearest Return marker: an error raised by a "
              "subscript or a user function of an INPUT target (`INPUT B(7)` with DIM B(5); "
              "`INPUT B(FNA(0))` where FNA fails) asks for the reply again forever, or unwinds "
              "to the function's marker and ends in INTERNAL ERROR")
    # the marker that ends the unwind is the NEAREST Return (the one do_input pushed last):
    # entries are taken off the top one by one; no positional search of the stack
    pops = [c for c in ex.calls_to("mach::stack::Stack<T>::pop")
            if any(c.bb in set(sc) for sc in ex.sccs())]
    posn = [c.name.rsplit("::", 1)[1] for g in [ex] + list(cr.closures_of(ex.path)) for c in g.calls()
            if re.search(r"Stack<T>::(drain|get|get_mut)$|Iterator::(position|find|rposition)$",
                         c.name) and "stack" in (g.describe(c.args[0]) if c.args else "")
            or re.search(r"Stack<T>::(drain|get)$", c.name)]
    ctx.check(bool(pops) and not posn, "C17.d", "execute/unwind-from-top", ex.span,
              "the redo unwind pops entries until it meets a Return marker",
              "the redo unwind locates the Return marker by position (%s) instead of popping from "
              "the top: inside a GOSUB the first Return from the bottom is the subroutine's "
              "return address, so the retry resumes there and ends in INTERNAL ERROR" % posn)
    redo = [b for b, i, s in ex.aggregates("lang::error::ErrorCode", "RedoFromStart")]
    others = [p for p, f in cr.fns.items() if p != ex.path
              and list(f.aggregates("lang::error::ErrorCode", "RedoFromStart"))]
    okr = len(redo) == 1 and not others and _variant_on_way(ex, redo[0], "InputRedo")
    ctx.check(okr, "C17.d", "execute/redo-message", ex.span,
              "REDO FROM START is reported from the InputRedo state only")
    r = cr.need_fn("mach::runtime::Runtime::input")
    okp = False
    for b, s, v in r.field_stores("pc"):
        if re.search(r"\.pc Sub(WithOverflow)? const:1\)", r.describe_value(v) or ""):
            okp = _variant_on_way(r, b, "Running")
    sti = [b for b, s, v in r.field_stores("state")
           if r.stored_variant(v) == ("mach::runtime::State", "Input")]
    ctx.check(okp and bool(sti), "C17.d", "input/repoints-pc", r.span,
              "in Running state Input switches to State::Input and steps pc back onto itself")


def rule_e(ctx, cr):
    r = cr.need_fn("mach::runtime::Runtime::input")
    vf = r.calls_to("<mach::val::Val as std::convert::From<&str>>::from")
    ctx.check(len(vf) == 1, "C17.e", "input/numeric-via-Val::from", r.span,
              "numeric fields are converted by Val::from(&str)")
    zero = [st for b, i, st in r.aggregates("mach::val::Val", "Integer")
            if r.const_of_operand(st["rv"]["ops"][0]) == 0]
    emp = any(c[0] == "eq" and "is_empty" in str(c[1]) and c[2] is True
              for b, i, st in r.aggregates("mach::val::Val", "Integer") for c in r.conds_at(b))
    ctx.check(bool(zero) and emp, "C17.e", "input/empty-field-is-zero", r.span,
              "an empty numeric field is Integer 0")
    # string field or numeric field? decided by the variable's type, which DEFSTR can give to a
    # name without `$`
    spush = [c for c in r.calls_to("mach::stack::Stack<T>::push")
             if (r.stored_variant(r.value_of_operand(c.args[1])) or ("", ""))[1] == "String"]
    fetches = r.calls_to("mach::var::Var::fetch")
    by_type = bool(fetches) and any(r.dominates(fc.bb, c.bb) for fc in fetches for c in spush)
    by_spelling = any("'$'" in r.describe(a) for c in r.calls_matching(r"<impl str>::ends_with$")
                      for a in c.args)
    ctx.check(bool(spush) and by_type and not by_spelling, "C17.e", "input/string-field-by-type",
              r.span, "a field is taken as text (quotes stripped, no numeric conversion) when the "
              "variable is of string type",
              "INPUT decides `string field` from a `$` at the end of the variable's name: a "
              "variable made a string by DEFSTR gets its reply converted to a number, so a reply "
              "like 5 is a TYPE MISMATCH (REDO FROM START for ever) and enclosing quotes are kept")
    # one pair of enclosing quotes: text[1 .. len-1] (or strip_prefix + strip_suffix)
    ix = [c for c in r.calls_matching(r"<impl std::ops::Index<I> for str>::index$")]
    sps = r.calls_matching(r"<impl str>::strip_(prefix|suffix)$")
    for c2 in cr.closures_of(r.path):
        sps = sps + c2.calls_matching(r"<impl str>::strip_(prefix|suffix)$")
    if ix:
        for n, c in enumerate(ix, 1):
            v = r.value_of_operand(c.args[1])
            d = [r.describe(o) for o in v["rv"]["ops"]] if v and v.get("k") == "rv" and \
                v["rv"]["k"] == "aggregate" and len(v["rv"].get("ops", ())) == 2 else None
            ok = bool(d) and d[0] == "const:1" and \
                re.match(r"^\(call:core::str::<impl str>::len\(.*\) Sub(WithOverflow)? const:1\)$", d[1])
            ctx.check(bool(ok), "C17.e", "input/strips-one-quote-pair#%d" % n, c.span,
                      "the quoted field keeps text[1 .. len-1]",
                      "the quoted reply is cut as %s, not 1..len-1: a quote stays in the value "
                      "or a character is lost" % (d,))
    else:
        ctx.check(len(sps) >= 2, "C17.e", "input/strips-one-quote-pair", r.span,
                  "enclosing quotes are removed by strip_prefix/strip_suffix",
                  "no removal of the enclosing quotes found in Runtime::input")
    tr = r.calls_matching(r"<impl str>::trim$")
    ctx.check(len(tr) == 1, "C17.e", "input/trims-field", r.span, "surrounding blanks are stripped")
    f = cr.need_fn("<mach::val::Val as std::convert::From<&str>>::from")
    ctx.touch(f)
    bad = []
    radix = f.calls_matching(r"<impl i16>::from_str_radix$")
    for c in radix:
        names = f.back_slice_calls(c.args[0])
        if any(re.search(r"(replace|to_ascii_uppercase|to_uppercase|to_ascii_lowercase)$", n)
               for n in names):
            bad.append(c.span["line"])
    ctx.check(len(radix) == 2 and not bad, "C17.e", "Val::from/radix-on-original-text", f.span,
              "&H / & digits are parsed from the unmodified text",
              "the hexadecimal/octal branch parses text that was rewritten first (lines %s): hex "
              "digits that are also exponent letters (D, E) change value" % bad)
    for n, c in enumerate(radix, 1):
        cj = common.conjoined_case_tests(f, c.bb)
        ctx.check(not cj, "C17.e", "Val::from/radix#%d/prefix-cases-are-alternatives" % n, c.span,
                  "the prefix letter is accepted in either case",
                  "the radix branch requires the prefix letter in both cases at once %s: it is "
                  "never taken and &H.. replies are read as octal or as text" % cj)
    # at most ONE type decorator is taken off the end (12%% is not a number)
    multi = f.calls_matching(r"<impl str>::trim_(end_|start_)?matches$") + \
        f.calls_matching(r"<impl str>::trim_right_matches$")
    loops = set()
    for comp in f.sccs():
        loops |= set(comp)
    looped = [c for c in f.calls_matching(r"(String::pop|<impl str>::strip_suffix|String::truncate)$")
              if c.bb in loops]
    ctx.check(not multi and not looped, "C17.e", "Val::from/one-decorator", f.span,
              "the decorator removal takes one character, once",
              "Val::from removes any number of trailing ! # %% characters (%s): a reply such as "
              "12%%%% is accepted as a number instead of REDO FROM START"
              % sorted({c.name.rsplit("::", 1)[1] for c in multi + looped}))
    sp = f.calls_matching(r"<impl str>::strip_prefix$")
    rep = f.calls_matching(r"<impl str>::replace$")
    ctx.check(len(sp) == 1 and all(f.dominates(sp[0].bb, c.bb) for c in rep), "C17.e",
              "Val::from/prefix-before-exponent-rewrite", f.span,
              "the & prefix is examined before D is rewritten to E")
    dbl = [b for b, i, st in f.aggregates("mach::val::Val", "Double")]
    fin = [b for b in dbl
           if any(c[0] == "eq" and "f64>::is_finite" in str(c[1]).replace("impl ", "") and c[2] is True
                  for c in f.conds_at(b))
           or any(c[0] == "eq" and "is_finite" in str(c[1]) and c[2] is True for c in f.conds_at(b))]
    ctx.check(bool(dbl) and len(fin) == len(dbl), "C17.e", "Val::from/finite-only", f.span,
              "a parsed float becomes a number only when it is finite",
              "the result of str::parse::<f64>() becomes a number without an is_finite test: "
              "Rust's parser accepts the words inf, infinity and nan (and overflows 1e400 to "
              "inf), so INPUT and VAL take them as numbers instead of REDO FROM START / 0")
    v = cr.need_fn("mach::function::Function::val")
    ctx.check(bool(v.calls_to(f.path)), "C17.e", "VAL/shares-conversion", v.span,
              "VAL uses the same conversion")


def rule_f(ctx, cr, rid="C17.f"):
    f = cr.need_fn("mach::runtime::Runtime::do_input")
    ctx.touch(f)
    if rid == "C17.f":
        # if the whole reply is pushed unsplit on some path, that path must admit count == 1
        whole = []
        for c in f.calls_matching(r"Vec::<T, A>::push$"):
            d = f.describe(c.args[1])
            if "Index" in d or "index(" in d:
                continue            # a slice of the reply: the splitting path
            for op, l, r, truth in f.cmp_conds_at(c.bb):
                k = f.const_of_operand(r)
                if isinstance(k, int) and "Vec::<T, A>::len" not in f.describe(l):
                    whole.append((op, k, truth))
        if whole:
            def admits_one(op, k, t):
                v = 1
                res = {"Le": v <= k, "Lt": v < k, "Ge": v >= k, "Gt": v > k, "Eq": v == k,
                       "Ne": v != k}.get(op)
                return res is None or res == t
            ctx.check(all(admits_one(*w) for w in whole), rid, "do_input/single-variable-whole-reply",
                      f.span, "the unsplit reply is used when there is one variable (%s)" % whole,
                      "the path that hands the whole reply to the variable is guarded by %s, which "
                      "excludes a count of 1: INPUT with a single variable splits its reply at "
                      "commas again (`A,B` for INPUT A$ is REDO FROM START)" % whole)
    redo = [b for b, s, v in f.field_stores("state")
            if f.stored_variant(v) == ("mach::runtime::State", "InputRedo")]
    ok = False
    seen = []
    for b in redo:
        for op, l, r, truth in f.cmp_conds_at(b):
            d = (f.describe(l), f.describe(r))
            if any("Vec::<T, A>::len" in x for x in d):
                seen.append((op, truth))
                if (op, truth) in (("Ne", True), ("Eq", False)):
                    ok = True
    ctx.check(ok, rid, "do_input/count-test-is-inequality", f.span,
              "REDO FROM START when the number of fields differs from the number of variables",
              "the field-count test guarding the redo is %s: a reply with too many fields is "
              "accepted (the surplus is folded into the last variable or left on the stack)"
              % (seen or "missing"))
