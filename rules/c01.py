"""C01 - compiled execution follows the documented control-flow semantics.

Decides control-transfer plumbing, not program output: placeholders are registered for
patching; emitter and patcher agree per opcode kind; WHILE/WEND pairing; VM dispatch table;
every compiled sub-fragment is emitted; RETURN carries only the top value; trace lookup."""
import json
import os
import re

from lib.mir import op_place
from rules import codegen, progress

HERE = os.path.dirname(os.path.abspath(__file__))
OPC = "mach::opcode::Opcode"
PLACEHOLDER_KINDS = {"Jump", "IfNot", "Restore"}
# placeholder pushes that legitimately have no patch registration on some path
UNREGISTERED_OK = {
    ("mach::link::Link::push_restore", "Restore"):
        "RESTORE without a line: data address 0 is the first DATA item",
    ("mach::link::Link::push_run", "Jump"):
        "RUN without a line: code address 0 is the first line",
}


def placeholder_pushes(f):
    out = []
    for c in f.calls():
        if not (c.name.endswith("Stack<T>::push") or c.name == "mach::link::Link::push"):
            continue
        v = f.value_of_operand(c.args[1])
        sv = f.stored_variant(v)
        if not sv or sv[0] != OPC:
            continue
        kind = sv[1]
        ops = [f.describe(o) for o in v["rv"]["ops"]]
        if kind in PLACEHOLDER_KINDS and ops == ["const:0"]:
            out.append((c, kind))
        elif kind == "Literal" and ops and re.match(r"^mach::val::Val::(Return|Next)\(const:0\)$",
                                                    ops[0]):
            out.append((c, "Literal(%s)" % re.search(r"Val::(\w+)", ops[0]).group(1)))
    return out


def run(ctx):
    cr = ctx.lib
    ctx.rule("C01.a", "every push of a placeholder opcode (Jump(0), IfNot(0), Restore(0), "
             "Literal(Return(0)), Literal(Next(0))) in mach::link is dominated by a registration "
             "of its address (unlinked.insert(ops.len(), ..) or whiles.push(.., ops.len(), ..)); "
             "the two `no line` forms are the only reviewed exceptions")
    ctx.rule("C01.b", "Link::link rewrites exactly the placeholder kinds that are emitted, with "
             "the code address for IfNot/Jump/Return/Next and the data address for Restore")
    ctx.rule("C01.c", "link_whiles pairs WHILE and WEND by a stack over insertion order and "
             "cross-links them (WHILE's IfNot -> WEND's symbol, WEND's Jump -> WHILE's symbol)")
    ctx.rule("C01.d", "execute_loop dispatches every Opcode variant (no catch-all) to the handler "
             "of the frozen reviewed table; Generator::statement maps every Statement variant to "
             "the generator of the same name")
    ctx.rule("C01.f", "the trace (TRON), error line numbers and r#tron all look lines up through "
             "Program::line_number_for, which scans only non-negative (line) symbols")
    ctx.rule("C01.g", "every code fragment a generator pops from its expression/statement stacks "
             "is appended (or read as a line number / file name) on every successful path: no "
             "sub-statement's code is silently dropped")
    ctx.rule("C01.h", "RETURN: only the value on top of the stack when RETURN starts may be carried "
             "across the frame (the store into the carried value is guarded by a flag that every "
             "loop iteration clears), and the return address is popped before control moves")
    rule_a(ctx, cr)
    rule_b(ctx, cr)
    rule_b2(ctx, cr)
    rule_ifnot(ctx, cr)
    rule_c(ctx, cr)
    rule_d(ctx, cr)
    rule_f(ctx, cr)
    n = codegen.check_linear(ctx, "C01.g", cr)
    ctx.floor("C01.g", "fragment pops in generators", n, 27)
    rule_h(ctx, cr)
    ctx.rule("C01.i", "the stored program is terminated: Program::link appends End unless the last "
             "opcode is an End that no label points past (an End inside a trailing IF branch does "
             "not terminate the program)")
    codegen.check_program_end(ctx, "C01.i", cr)
    ctx.rule("C01.j", "code emission does not look back at emitted code: the inspection API of "
             "Link (last, has_symbol_at, get) is called only by Program::link / Program::get, so "
             "no generator drops or alters a jump depending on what the previous fragment ended "
             "with; IF..ELSE emits its jump over the ELSE part unconditionally between the THEN "
             "part and the else label")
    rule_j(ctx, cr)
    ctx.rule("C01.k", "FOR/NEXT frame protocol: FOR evaluates start, limit, step once in source "
             "order and emits no entry test (first pass always runs); NEXT pops the four-entry "
             "frame, stores the incremented variable, tests against the limit by the sign of the "
             "step, and on continuing pushes the same frame back in the same order and returns to "
             "the loop body; a missing STEP is 1; no frame on top is NEXT WITHOUT FOR")
    codegen.check_all_statements_compiled(ctx, "C01.g", cr)
    rule_k(ctx, cr)
    ctx.rule("C01.l", "ON..GOTO/GOSUB: the template is count, selector, On, one Jump per target in "
             "list order; the handler pops selector then count, adds `count` to pc for selector 0 "
             "or > count (falls through past the list) and `selector - 1` otherwise; a negative "
             "selector is ILLEGAL FUNCTION CALL")
    rule_l(ctx, cr)


def rule_a(ctx, cr):
    n = 0
    for p, f in sorted(cr.fns.items()):
        if not p.startswith("mach::link::Link::"):
            continue
        ph = placeholder_pushes(f)
        if not ph:
            continue
        ctx.touch(f)
        regs = []
        for c in f.calls():
            if c.name.endswith("HashMap::<K, V, S, A>::insert") and \
                    f.describe(c.args[0]).endswith(".unlinked"):
                regs.append((c, f.describe(c.args[1])))
            if c.name.endswith("Vec::<T, A>::push") and f.describe(c.args[0]).endswith(".whiles"):
                regs.append((c, f.describe(c.args[1])))
        for i, (c, kind) in enumerate(ph, 1):
            n += 1
            key = "%s/%s#%d" % (p, kind, i)
            good = [r for r, d in regs if f.dominates(r.bb, c.bb) and r.bb != c.bb
                    and "Stack<T>::len" in d]
            if good:
                ctx.ok("C01.a", key, c.span, "address registered before the placeholder is pushed")
                continue
            ex = UNREGISTERED_OK.get((p, kind))
            cond_regs = [r for r, d in regs if f.can_reach(r.bb, c.bb) and "Stack<T>::len" in d]
            if ex and cond_regs:
                # registered whenever a line number is present
                okc = any(any(cc[0] == "eq" and "is_some" in str(cc[1]) and cc[2] is True
                              for cc in f.conds_at(r.bb)) for r in cond_regs)
                ctx.check(okc, "C01.a", key, c.span,
                          "registered when a line number is given; %s" % ex)
                continue
            ctx.bad("C01.a", key, c.span,
                    "placeholder %s(0) is pushed without registering its address for linking: the "
                    "branch would keep target 0" % kind)
    ctx.floor("C01.a", "placeholder emit sites", n, 10)
    # push_symbol records (ops.len(), data.len())
    ps = cr.need_fn("mach::link::Link::push_symbol")
    ctx.touch(ps)
    ins = ps.calls_matching(r"BTreeMap::<K, V, A>::insert$")
    ok = False
    for c in ins:
        v = ps.value_of_operand(c.args[2])
        if v and v.get("k") == "rv" and v["rv"].get("agg") == "tuple":
            d = [ps.describe(o) for o in v["rv"]["ops"]]
            ok = len(d) == 2 and ".ops" in d[0] and "len(" in d[0] and ".data" in d[1] \
                and "len(" in d[1]
    ctx.check(ok, "C01.a", "push_symbol/records-code-and-data-address", ps.span,
              "a symbol is (ops.len(), data.len())",
              "push_symbol no longer records (code address, data address) in that order")


def rule_b(ctx, cr):
    f = cr.need_fn("mach::link::Link::link")
    ctx.touch(f)
    patched = {}
    for b, i, st in f.aggregates(OPC):
        kind = st["rv"]["variant"]
        d = [f.describe(o) for o in st["rv"]["ops"]]
        if kind == "Literal":
            m = re.match(r"^mach::val::Val::(\w+)\((.*)\)$", d[0]) if d else None
            if not m:
                continue
            kind = "Literal(%s)" % m.group(1)
            payload = m.group(2)
        else:
            payload = d[0] if d else ""
        # which arm: the matched old opcode
        arm = None
        for c in f.conds_at(b):
            if c[0] == "variant" and c[2] == OPC and arm is None:
                arm = c[3]
        for c in f.conds_at(b):
            if c[0] == "variant" and c[2] == "mach::val::Val":
                arm = "Literal(%s)" % c[3]
        comp = "code" if payload.endswith(".0") else ("data" if payload.endswith(".1") else "?")
        patched[kind] = (arm, comp)
    want = {"IfNot": "code", "Jump": "code", "Literal(Return)": "code", "Literal(Next)": "code",
            "Restore": "data"}
    for k, comp in want.items():
        g = patched.get(k)
        ctx.check(g is not None and g[0] == k and g[1] == comp, "C01.b", "link/patch/%s" % k, f.span,
                  "%s is rewritten in its own arm with the %s address" % (k, comp),
                  "Link::link rewrites %s as %s (expected: its own arm, %s address): the branch "
                  "would land at a %s address" % (k, g, comp, "data" if comp == "code" else "code"))
    emitted = set()
    for p, g in cr.fns.items():
        if p.startswith("mach::link::Link::"):
            for c, kind in placeholder_pushes(g):
                emitted.add(kind)
    ctx.check(emitted <= set(patched), "C01.b", "link/emitted-kinds-patched", f.span,
              "every emitted placeholder kind %s has a patch arm" % sorted(emitted),
              "placeholder kinds %s are emitted but never patched" % sorted(emitted - set(patched)))
    # resolution by symbol key
    gets = f.calls_matching(r"BTreeMap::<K, V, A>::get$")
    ctx.check(len(gets) == 1 and ".symbols" in f.describe(gets[0].args[0]), "C01.b",
              "link/resolves-by-symbol", f.span, "targets are looked up in the symbol table")
    codes = {c for _b, c, _s in f.error_codes()}
    ctx.check("UndefinedLine" in codes, "C01.b", "link/undefined-line", f.span,
              "an unresolved line symbol is reported as UNDEFINED LINE")


def rule_ifnot(ctx, cr):
    """IF: a predicate is false exactly when it equals zero, whatever its numeric type"""
    lp = cr.need_fn("mach::runtime::Runtime::execute_loop")
    tests = []
    for b, i, st in lp.assigns():
        rv = st["rv"]
        if rv["k"] == "binop" and rv["op"] in ("Eq", "Ne", "Lt", "Le", "Gt", "Ge") and any(
                c[0] == "variant" and c[2] == OPC and c[3] == "IfNot" for c in lp.conds_at(b)):
            tests.append((rv["op"], rv["lty"], lp.describe(rv["r"])))
    want = {("Eq", "i16", "const:0"), ("Eq", "f32", "const:0.0"), ("Eq", "f64", "const:0.0")}
    ctx.check(set(tests) == want and len(tests) == 3, "C01.d", "IfNot/zero-test-per-type", lp.span,
              "IfNot branches when the value == 0 for Integer, Single and Double alike",
              "the IfNot arm tests its operand with %s: for one numeric type IF takes the wrong "
              "branch (e.g. `n != 0.0` for a Double predicate inverts every IF on a Double)" % tests)


def rule_b2(ctx, cr):
    """Link::link: operands written into opcodes come from symbols.get(), one write per reference"""
    f = cr.need_fn("mach::link::Link::link")
    ctx.touch(f)
    bad = []
    n = 0
    for b, i, st in f.aggregates(OPC):
        if st["rv"]["variant"] not in ("Jump", "IfNot", "Restore", "Literal"):
            continue
        n += 1
        d = f.describe(st["rv"]["ops"][0]) if st["rv"]["ops"] else ""
        if "BTreeMap::<K, V, A>::get(&(*_1).symbols" not in d:
            bad.append((st["rv"]["variant"], d[:70]))
    gm = [c for c in f.calls() if re.search(r"Stack<T>::get_mut$", c.name)]
    rd = [c for c in f.calls() if re.search(r"Stack<T>::(get|last)$", c.name)
          and f.describe(c.args[0]).endswith(".ops")]
    ctx.check(n >= 5 and not bad and len(gm) == 1 and not rd, "C01.b", "link/addresses-from-symbols",
              f.span, "%d patched opcodes, each operand read from the symbol table; code is written "
              "through one get_mut and never read back" % n,
              "Link::link builds an operand that does not come from symbols.get() or reads code "
              "back while patching (%s; %d get_mut, %d reads of ops): a branch then lands "
              "somewhere else than on the line or label it names (jump threading skips the "
              "lines in between, so the trace and the compile-error gate no longer see them)"
              % (bad, len(gm), len(rd)))


def rule_c(ctx, cr):
    f = cr.need_fn("mach::link::Link::link_whiles")
    ctx.touch(f)
    ins = [c for c in f.calls_matching(r"HashMap::<K, V, S, A>::insert$")
           if f.describe(c.args[0]).endswith(".unlinked")]
    pushes = [c for c in f.calls_matching(r"Vec::<T, A>::push$")]
    pops = [c for c in f.calls_matching(r"Vec::<T, A>::pop$")]
    ctx.check(len(ins) == 2 and pushes and pops, "C01.c", "link_whiles/shape", f.span,
              "a stack of open WHILEs, two cross-link registrations per pair")
    if len(ins) == 2:
        # each insert: key address from one tuple, symbol from the other
        descs = []
        for c in ins:
            addr = f.describe(c.args[1])
            v = f.value_of_operand(c.args[2])
            sym = f.describe(v["rv"]["ops"][1]) if v and v.get("k") == "rv" and \
                v["rv"].get("agg") == "tuple" else "?"
            descs.append((addr, sym))

        def side(d):
            return "while" if "pop(" in d else "wend"
        crossed = all(side(a) != side(s) for a, s in descs) and \
            {side(a) for a, _s in descs} == {"while", "wend"}
        ctx.check(crossed, "C01.c", "link_whiles/cross-linked", f.span,
                  "WHILE's test jumps past the WEND and the WEND jumps back to the WHILE",
                  "link_whiles registers %s: WHILE and WEND are not cross-linked" % descs)
    codes = {c for _b, c, _s in f.error_codes()}
    ctx.check({"WendWithoutWhile", "WhileWithoutWend"} <= codes, "C01.c", "link_whiles/errors",
              f.span, "unmatched WHILE / WEND are reported")
    # kind flag: push_while records true, push_wend false
    for name, want in (("push_while", True), ("push_wend", False)):
        g = cr.need_fn("mach::link::Link::" + name)
        ctx.touch(g)
        got = None
        for c in g.calls_matching(r"Vec::<T, A>::push$"):
            v = g.value_of_operand(c.args[1])
            if v and v.get("k") == "rv" and v["rv"].get("agg") == "tuple":
                got = g.const_of_operand(v["rv"]["ops"][0])
        ctx.check(got is want, "C01.c", "%s/kind-flag" % name, g.span, "records kind=%s" % want,
                  "%s records kind=%s" % (name, got))


def dispatch_now(cr):
    lp = cr.need_fn("mach::runtime::Runtime::execute_loop")
    tab = {}
    for c in lp.calls():
        v = None
        for cond in lp.conds_at(c.bb):
            if cond[0] == "variant" and cond[2] == OPC:
                v = cond[3]
        if v is None:
            continue
        nm = c.name
        if not (nm.startswith("mach::") or nm.startswith("<mach::")):
            continue
        short = nm.replace("mach::runtime::Runtime::", "self.").replace("mach::", "")
        fd = None
        for a in c.args[1:]:
            vv = lp.value_of_operand(a)
            if vv and vv.get("fn_def"):
                fd = vv["fn_def"].replace("mach::", "")
        e = short + (("(" + fd + ")") if fd else "")
        tab.setdefault(v, [])
        if e not in tab[v]:
            tab[v].append(e)
    return lp, tab


def skipped_handlers(cr, only=None):
    """[(variant, handler, span)] for handler calls of a dispatch arm that some path from the
    arm's entry back to the head of the dispatch loop does not pass (error returns leave the
    loop and do not count): a handler that runs only under an extra condition"""
    lp = cr.need_fn("mach::runtime::Runtime::execute_loop")
    hdr = {c.bb for c in lp.calls() if "iter::range" in c.name and c.name.endswith("::next")}
    sw = None
    for b in lp.reachable():
        t = lp.term(b)
        if t["k"] == "switch" and len(t["targets"]) > 60:
            sw = t
    if sw is None or not hdr:
        raise MissingAnchorLike("dispatch switch / loop head of execute_loop")
    names = {v["discr"]: v["name"] for v in cr.adts[OPC]["variants"]}
    out = []
    n = 0
    for val, tb in sw["targets"]:
        v = names.get(val)
        if only and v not in only:
            continue
        for c in lp.calls():
            if not (c.name.startswith("mach::") or c.name.startswith("<mach::")):
                continue
            if not any(cc[0] == "variant" and cc[2] == OPC and cc[3] == v
                       for cc in lp.conds_at(c.bb)):
                continue
            n += 1
            if lp.reach_set(tb, avoid={c.bb}) & hdr:
                out.append((v, c.name, c.span))
    return out, n


class MissingAnchorLike(Exception):
    pass


def rule_d(ctx, cr):
    try:
        skipped, n = skipped_handlers(cr)
    except MissingAnchorLike as e:
        ctx.missing("C01.d", str(e))
        skipped, n = [], 0
    ctx.floor("C01.d", "handler calls in dispatch arms", n, 90)
    ctx.check(not skipped, "C01.d", "dispatch/unconditional", "",
              "%d handler calls, each on every path through its arm" % n,
              "handler calls that an arm can skip: %s: the opcode then does nothing under that "
              "condition (e.g. Clear skipped: RUN/CLEAR keep variables, DEFtypes, DATA position)"
              % [(v, h.rsplit("::", 1)[1]) for v, h, _s in skipped])
    with open(os.path.join(HERE, "dispatch_table.json")) as fh:
        frozen = json.load(fh)
    lp, now = dispatch_now(cr)
    ctx.touch(lp)
    variants = cr.variants(OPC)
    ctx.floor("C01.d", "Opcode variants", len(variants), 91)
    nolocal = {"Jump", "Stop", "Inkey"}
    for v in variants:
        if v in nolocal and v not in frozen:
            ctx.check(v not in now, "C01.d", "dispatch/%s" % v, lp.span,
                      "handled inline (no handler call)",
                      "Opcode::%s now calls %s" % (v, now.get(v)))
            continue
        ctx.check(sorted(now.get(v, [])) == sorted(frozen.get(v, ["<new opcode>"])), "C01.d",
                  "dispatch/%s" % v, lp.span, "-> %s" % ", ".join(now.get(v, [])),
                  "Opcode::%s dispatches to %s; the reviewed table says %s"
                  % (v, now.get(v), frozen.get(v)))
    # totality: the switch on the opcode has no live `otherwise`
    total = False
    for b in lp.reachable():
        t = lp.term(b)
        if t["k"] == "switch" and len(t["targets"]) >= len(variants) - 1:
            total = lp.is_unreachable_block(t["otherwise"]) or len(t["targets"]) == len(variants)
    ctx.check(total, "C01.d", "dispatch/total", lp.span, "the dispatch match is exhaustive")
    # Statement -> generator
    from rules import tables
    gs = cr.need_fn("mach::codegen::Generator::statement")
    ctx.touch(gs)
    disp = tables.dispatch_table(gs, tables.arg_place(gs, 3), callee_rx=r"Generator::")
    special = {"OnGoto": "on", "OnGosub": "on", "Mid": "mid", "New": "new_"}
    for v in cr.variants("lang::ast::Statement"):
        want = "mach::codegen::Generator::" + special.get(v, v.lower())
        ctx.check(disp.get(v) == {want}, "C01.d", "statement/%s" % v, gs.span, "-> %s" % want,
                  "Statement::%s is compiled by %s (expected %s)" % (v, disp.get(v), want))
    # ON: the gosub flag
    flags = {}
    for c in gs.calls_to("mach::codegen::Generator::on"):
        vs = gs.variants_at(c.bb, tables.arg_place(gs, 3))
        if vs and len(vs) == 1:
            flags[next(iter(vs))] = gs.const_of_operand(c.args[4])
    ctx.check(flags == {"OnGoto": False, "OnGosub": True}, "C01.d", "statement/on-flag", gs.span,
              "ON..GOTO / ON..GOSUB pass is_gosub = false / true",
              "ON..GOTO / ON..GOSUB pass is_gosub = %s" % flags)


def origin_sites(f, op, pat, depth=0, seen=None):
    """blocks of the calls matching `pat` whose result flows into operand `op` through moves,
    clones, `?`, payload projections and references (call SITES, unlike describe())"""
    seen = seen if seen is not None else set()
    out = set()
    p = op_place(op)
    if p is None or depth > 14:
        return out
    l = p["local"]
    if l in seen:
        return out
    seen.add(l)
    for d in f.defs().get(l, []):
        if d[0] == "call":
            c = d[2]
            if re.search(pat, c.name):
                out.add(c.bb)
            elif re.search(r"(Try>?::branch|Clone>?::clone|From<.*>>?::(from|try_from)|"
                           r"TryFrom::try_from|Into<.*>>?::into|"
                           r"Deref>?::deref|IntoIterator>?::into_iter|Iterator>?::next)$", c.name):
                for a in c.args[:1]:
                    out |= origin_sites(f, a, pat, depth + 1, seen)
        elif d[0] == "stmt":
            rv = d[3]
            if rv["k"] in ("use", "cast"):
                out |= origin_sites(f, rv["op"], pat, depth + 1, seen)
            elif rv["k"] in ("ref", "discriminant"):
                out |= origin_sites(f, {"k": "copy", "place": {"local": rv["place"]["local"],
                                                               "proj": []}}, pat, depth + 1, seen)
            elif rv["k"] == "aggregate":
                for o in rv["ops"]:
                    out |= origin_sites(f, o, pat, depth + 1, seen)
            elif rv["k"] == "binop":
                out |= origin_sites(f, rv["l"], pat, depth + 1, seen)
                out |= origin_sites(f, rv["r"], pat, depth + 1, seen)
            elif rv["k"] == "unop" and rv.get("o"):
                out |= origin_sites(f, rv["o"], pat, depth + 1, seen)
    return out


def rule_k(ctx, cr):
    """FOR/NEXT frame protocol"""
    g = cr.need_fn("mach::codegen::Generator::for")
    ctx.touch(g)
    pops = _seq(g, [c for c in g.calls_to("mach::stack::Stack<T>::pop")
                    if g.describe(c.args[0]).endswith(".expr")])
    apps = _seq(g, g.calls_to("mach::link::Link::append"))
    store = g.calls_to("mach::codegen::VarItem::push_as_pop_unary")
    pf = g.calls_to("mach::link::Link::push_for")
    ok = len(pops) == 3 and len(apps) == 3 and len(store) == 1 and len(pf) == 1
    if ok:
        # the expression stack is LIFO: step was pushed last, so it is popped first
        want = [pops[2].bb, pops[1].bb, pops[0].bb]        # from, to, step
        got = [sorted(origin_sites(g, a.args[1], r"Stack<T>::pop$")) for a in apps]
        ok = all(len(x) == 1 and x[0] == w for x, w in zip(got, want))
        ok = ok and g.dominates(apps[0].bb, store[0].bb) and g.dominates(store[0].bb, apps[1].bb) \
            and g.dominates(apps[2].bb, pf[0].bb)
    ctx.check(ok, "C01.k", "for/template-order", g.span,
              "FOR emits: start value, store into the variable, limit, step, variable name, the "
              "Next marker - x, y, z are evaluated once, in that order",
              "Generator::for no longer emits start, store, limit, step in source order (the "
              "operands are popped step, limit, start): x, y, z are evaluated in another order or "
              "the wrong expression becomes the limit/step")
    emits = [c for c in g.calls() if re.search(r"Link::push_(jump|ifnot)$", c.name)]
    lf = cr.need_fn("mach::link::Link::push_for")
    emits += [c for c in lf.calls() if re.search(r"Link::push_(jump|ifnot)$", c.name)]
    ctx.check(not emits, "C01.k", "for/no-entry-test", g.span,
              "FOR emits no branch: the first pass always runs")
    n = cr.need_fn("mach::runtime::Runtime::next")
    ctx.touch(n)
    npops = _seq(n, n.calls_to("mach::stack::Stack<T>::pop"))
    npush = _seq(n, n.calls_to("mach::stack::Stack<T>::push"))
    okf = len(npops) == 4 and len(npush) == 4
    detail = ""
    if okf:
        # re-push order is the reverse of the pop order: (to, step, name, Next)
        for k, c in enumerate(npush):
            src = origin_sites(n, c.args[1], r"Stack<T>::pop$")
            want = npops[3 - k].bb
            if src != {want}:
                okf = False
                detail = "push #%d re-pushes the value of pop at bb%s, expected the pop at bb%d" % (
                    k + 1, sorted(src), want)
    ctx.check(okf, "C01.k", "next/frame-preserved", n.span,
              "NEXT pops marker, name, step, limit and, when the loop continues, pushes the same "
              "four values back in reverse order",
              "NEXT does not put the frame back as it found it (%s): the limit/step of the loop "
              "changes after the first iteration or the frame is mis-read by the next NEXT"
              % (detail or "%d pops / %d pushes" % (len(npops), len(npush))))
    # what FOR leaves on the stack is what NEXT takes off: 3 expressions - 1 store + the name
    # literal + the Next marker of push_for = the 4 entries NEXT pops
    lits = [c for c in g.calls_to("mach::link::Link::push")
            if (g.stored_variant(g.value_of_operand(c.args[1])) or ("", ""))[1] == "Literal"]
    left = len(apps) - len(store) + len(lits) + len(pf)
    ctx.check(left == len(npops), "C01.k", "for/frame-size-agrees", g.span,
              "FOR leaves %d entries, NEXT pops %d" % (left, len(npops)),
              "FOR's template leaves %d entries on the stack but NEXT pops %d: every loop leaks "
              "or eats stack entries" % (left, len(npops)))
    # continue <=> not done: pc store and re-push on the same paths
    pcs = [b for b, st, v in n.field_stores("pc")]
    okp = len(pcs) == 1 and npush and all(n.dominates(c.bb, pcs[0]) or n.dominates(pcs[0], c.bb)
                                           for c in npush)
    ctx.check(bool(okp), "C01.k", "next/jump-back-with-frame", n.span,
              "pc returns to the loop body exactly where the frame is re-pushed")
    # the finished test depends on the sign of the step
    sm = n.calls_to("mach::operation::Operation::sum")
    less = n.calls_to("mach::operation::Operation::less")
    oks = len(sm) == 1 and len(less) == 2
    if oks:
        arms = {}
        for c in less:
            neg = None
            for op, l, r, truth in n.cmp_conds_at(c.bb):
                if op == "Lt" and n.describe(r) in ("const:0.0", "const:0"):
                    neg = truth
            a0 = bool(origin_sites(n, c.args[0], r"Operation::sum$"))
            a1 = bool(origin_sites(n, c.args[1], r"Operation::sum$"))
            arms[neg] = (a0, a1)
        oks = arms.get(True) == (True, False) and arms.get(False) == (False, True)
    ctx.check(oks, "C01.k", "next/done-test-by-sign", n.span,
              "finished when current < limit for a negative step, limit < current otherwise",
              "the loop-finished comparison no longer depends on the sign of the step in the "
              "documented way (negative step: current < limit; else limit < current)")
    st = n.calls_to("mach::var::Var::store")
    ctx.check(len(st) == 1 and bool(origin_sites(n, st[0].args[2], r"Operation::sum$")) and
              all(n.dominates(st[0].bb, c.bb) for c in less), "C01.k", "next/increment-stored-first",
              n.span, "the variable is incremented and stored before the test")
    codes = {c for _b, c, _s in n.error_codes()}
    ctx.check("NextWithoutFor" in codes, "C01.k", "next/without-for", n.span,
              "a NEXT that finds no Next marker on top is NEXT WITHOUT FOR")
    sf = cr.need_fn("lang::ast::Statement::for")
    ctx.touch(sf)
    one = [st_ for b, i, st_ in sf.aggregates("lang::ast::Expression", "Integer")
           if sf.const_of_operand(st_["rv"]["ops"][1]) == 1]
    ctx.check(len(one) == 1, "C01.k", "for/default-step", sf.span, "a missing STEP is 1")


def rule_l(ctx, cr):
    """ON .. GOTO/GOSUB: template and selector handler agree"""
    g = cr.need_fn("mach::codegen::Generator::on")
    ctx.touch(g)
    lit = [c for c in g.calls_to("mach::link::Link::push")
           if (g.stored_variant(g.value_of_operand(c.args[1])) or ("", ""))[1] == "Literal"]
    on = [c for c in g.calls_to("mach::link::Link::push")
          if (g.stored_variant(g.value_of_operand(c.args[1])) or ("", ""))[1] == "On"]
    app = g.calls_to("mach::link::Link::append")
    jmp = g.calls_to("mach::link::Link::push_goto")
    ok = len(lit) == 1 and len(on) == 1 and len(app) == 1 and len(jmp) == 1
    if ok:
        ok = g.dominates(lit[0].bb, app[0].bb) and g.dominates(app[0].bb, on[0].bb) and \
            g.dominates(on[0].bb, jmp[0].bb)
        # the literal is the number of targets (the usize argument), the jumps are emitted in a
        # loop over exactly those targets
        ok = ok and any("TryFrom<usize>" in n for n in g.back_slice_calls(lit[0].args[1]))
        ok = ok and any(jmp[0].bb in scc for scc in g.sccs())
        ok = ok and any(n.endswith("Iterator>::next") or n.endswith("Iterator::next")
                        for n in g.back_slice_calls(jmp[0].args[2]))
    ctx.check(ok, "C01.l", "on/template", g.span,
              "ON emits: count of targets, selector, On, then one Jump per target in list order",
              "Generator::on no longer emits count, selector, On and one Jump per target in that "
              "order: the selector handler skips by positions in this table")
    h = cr.need_fn("mach::runtime::Runtime::on")
    ctx.touch(h)
    pops = _seq(h, h.calls_to("mach::stack::Stack<T>::pop"))
    stores = list(h.field_stores("pc"))
    okh = len(pops) == 2 and len(stores) == 2
    if okh:
        sel, cnt = pops[0].bb, pops[1].bb       # selector is on top, the count below it
        kinds = {}
        for b, st, v in stores:
            rv = st["rv"]
            # pc += <x>   (through the WithOverflow tuple or directly)
            vv = h.value_of_operand(rv["op"]) if rv["k"] == "use" else {"k": "rv", "rv": rv}
            add = vv["rv"] if vv and vv.get("k") == "rv" and vv["rv"]["k"] == "binop" else None
            if not add or not add["op"].startswith("Add") or not h.describe(add["l"]).endswith(".pc"):
                okh = False
                continue
            src = origin_sites(h, add["r"], r"Stack<T>::pop$")
            minus1 = "Sub" in h.describe(add["r"]) and "const:1" in h.describe(add["r"])
            kinds[b] = (src, minus1)
        vals = sorted(kinds.values(), key=lambda x: x[1])
        okh = okh and len(vals) == 2 and vals[0] == ({cnt}, False) and vals[1] == ({sel}, True)
        # the skip-all store is the one under `select == 0 || select > len`
        if okh:
            skip_b = [b for b, k in kinds.items() if not k[1]][0]
            take_b = [b for b, k in kinds.items() if k[1]][0]
            cs = h.cmp_conds_at(take_b)
            okh = any(op == "Eq" and not t and h.describe(r) == "const:0" for op, l, r, t in cs) and \
                any(op == "Gt" and not t for op, l, r, t in cs)
    ctx.check(okh, "C01.l", "on/selector-arithmetic", h.span,
              "selector 0 or beyond the list: pc += count (past every Jump); otherwise pc += "
              "selector - 1 (onto its Jump)",
              "Runtime::on no longer skips `count` jumps for an out-of-range selector and "
              "`selector - 1` jumps otherwise: ON branches to the wrong line or falls into the list")
    codes = {c for _b, c, _s in h.error_codes()}
    neg = any(op == "Lt" and t and h.describe(r) == "const:0"
              for b, c, _s in h.error_codes() for op, l, r, t in h.cmp_conds_at(b))
    ctx.check("IllegalFunctionCall" in codes, "C01.l", "on/negative-selector", h.span,
              "a negative selector is ILLEGAL FUNCTION CALL")


def _seq(f, calls):
    """calls in execution order along the dominator tree (ties by block number)"""
    return sorted(calls, key=lambda c: (len(f.dominators().get(c.bb, ())), c.bb))


def rule_j(ctx, cr):
    want = {"mach::link::Link::last": {"mach::program::Program::link"},
            "mach::link::Link::has_symbol_at": {"mach::program::Program::link"},
            "mach::link::Link::get": {"mach::program::Program::get"}}
    for fn, ok in sorted(want.items()):
        cr.need_fn(fn)
        callers = set(cr.callers_of(fn))
        ctx.check(callers <= ok, "C01.j", "peephole/%s" % fn.rsplit("::", 1)[1], "",
                  "called only by %s" % sorted(ok),
                  "%s is now also called by %s: emission that depends on the previously emitted "
                  "opcode (e.g. dropping a jump after a Jump) is wrong for fragments that can "
                  "fall through (ON..GOTO with an out-of-range selector)"
                  % (fn, sorted(callers - ok)))
    f = cr.need_fn("mach::codegen::Generator::if")
    ctx.touch(f)
    pj = f.calls_to("mach::link::Link::push_jump")
    pi = f.calls_to("mach::link::Link::push_ifnot")
    ps = f.calls_to("mach::link::Link::push_symbol")
    if not ctx.check(len(pj) == 1 and len(pi) == 1 and len(ps) >= 3, "C01.j", "if/shape", f.span,
                     "one IfNot, one Jump over the ELSE part, labels for else and end"):
        return
    else_labels = [c for c in ps if f.same_origin(c.args[1], pi[0].args[2])]
    end_labels = [c for c in ps if f.same_origin(c.args[1], pj[0].args[2])]
    ok = any(f.dominates(pj[0].bb, c.bb) for c in else_labels) and \
        bool(end_labels) and all(f.dominates(pj[0].bb, c.bb) for c in end_labels)
    ctx.check(ok, "C01.j", "if/jump-over-else-unconditional", pj[0].span,
              "the Jump to the end label dominates the else label of the ELSE form and the end label",
              "IF..ELSE: the jump over the ELSE part is not emitted on every path before the "
              "else label: when the THEN part falls through (ON..GOTO out of range, GOSUB "
              "return) execution runs into the ELSE statements")
    ctx.check(len(else_labels) == 2, "C01.j", "if/else-label-both-forms", f.span,
              "the IfNot target label is placed in the form without and with ELSE")


def rule_f(ctx, cr):
    users = sorted(cr.callers_of("mach::program::Program::line_number_for"))
    want = {"mach::runtime::Runtime::execute::line_number", "mach::runtime::Runtime::execute_loop",
            "mach::runtime::Runtime::tron"}
    ctx.check(want <= set(users), "C01.f", "line_number_for/users", "",
              "trace, error attribution and TRON use Program::line_number_for",
              "line lookup users are %s" % users)
    f = cr.need_fn("mach::link::Link::line_number_for")
    ctx.touch(f)
    rg = f.calls_matching(r"BTreeMap::<K, V, A>::range$")
    ok = len(rg) == 1 and f.describe(rg[0].args[1]).startswith("std::ops::RangeFrom::RangeFrom(const:0")
    ctx.check(ok, "C01.f", "line_number_for/non-negative-symbols", f.span,
              "only line symbols (>= 0) are scanned",
              "line_number_for no longer restricts the scan to symbols >= 0: local (negative) "
              "symbols would be reported as line numbers")
    rev = f.calls_matching(r"Iterator::rev$")
    ge = [1 for b, i, st in f.assigns() if st["rv"]["k"] == "binop" and st["rv"]["op"] == "Ge"]
    ctx.check(bool(rev) and bool(ge), "C01.f", "line_number_for/last-symbol-at-or-below",
              f.span, "the greatest symbol address <= the opcode address wins")


def rule_h(ctx, cr):
    f = cr.need_fn("mach::runtime::Runtime::return")
    ctx.touch(f)
    # the carried value: Option<Val> local assigned Some(..) inside the loop
    sccs = [set(s) for s in f.sccs()]
    loop = sccs[0] if sccs else set()
    carried = []
    for b, i, st in f.assigns():
        rv = st["rv"]
        if b in loop and rv["k"] == "aggregate" and rv.get("adt") == "std::option::Option" and \
                rv.get("variant") == "Some" and not st["place"]["proj"] and \
                "mach::val::Val" in f.local_ty(st["place"]["local"]):
            carried.append((b, st))
    if not ctx.check(len(carried) == 1, "C01.h", "return/carried-value-store", f.span,
                     "one store of the carried value inside the unwinding loop"):
        return
    cb, cst = carried[0]
    # a bool flag F with (F == true) required at the store, cleared on every cycle
    flags = []
    for c in f.conds_at(cb):
        src = f._cond_src.get(c)
        if c[0] == "eq" and c[2] is True and src and src.get("k") == "multi" and \
                f.local_ty(src["local"]) == "bool":
            flags.append(src["local"])
    ok = False
    why = "the store is not guarded by a first-iteration flag"
    for fl in flags:
        sets_true = [b for b, i, st in f.assigns() if not st["place"]["proj"]
                     and st["place"]["local"] == fl and f.const_of_operand(st["rv"].get("op")) is True]
        sets_false = {b for b, i, st in f.assigns() if not st["place"]["proj"]
                      and st["place"]["local"] == fl
                      and f.const_of_operand(st["rv"].get("op")) is False}
        if any(b in loop for b in sets_true):
            why = "the flag is set again inside the loop"
            continue
        # every cycle through the store's block passes a clearing assignment
        nodes = list(loop)
        w = {b: (1 if b in sets_false else 0) for b in nodes}
        edges = [(u, v, w[u]) for u in nodes for v in f.succ(u) if v in loop]
        cyc = progress.negative_cycle(nodes, edges)
        if cyc is None:
            ok = True
        else:
            why = "a loop iteration can leave the flag set"
    ctx.check(ok, "C01.h", "return/only-top-value-carried", cst["span"],
              "the carried value can only be the first value popped",
              "RETURN can carry a value from below the top of the stack across the frame (%s): "
              "leaving an unfinished FOR loop with RETURN would hand a frame entry to the caller"
              % why)
    # ... and it is a VALUE (the result of FNx), never a frame marker: the variants the popped
    # entry can have at the store - through the `matches!` flag that guards it - are data only
    VAL = "mach::val::Val"
    data = {"Integer", "Single", "Double", "String"}

    def val_variants(bb):
        out = None
        for c in f.conds_at(bb):
            if c[0] == "variantin" and c[2] == VAL:
                out = set(c[3]) if out is None else out & set(c[3])
            elif c[0] == "variant" and c[2] == VAL:
                out = {c[3]} if out is None else out & {c[3]}
        return out
    may = None
    for c in f.conds_at(cb):
        src = f._cond_src.get(c)
        if c[0] == "eq" and c[2] is True and src and src.get("k") == "multi" and \
                f.local_ty(src["local"]) == "bool":
            sets = [val_variants(d[1]) for d in src["defs"]
                    if d[0] == "stmt" and d[3]["k"] == "use" and
                    f.const_of_operand(d[3]["op"]) is True]
            sets = [x for x in sets if x is not None]
            if sets:
                u = set().union(*sets)
                may = u if may is None else may & u
    direct = val_variants(cb)
    if direct is not None:
        may = direct if may is None else may & direct
    ctx.check(may is not None and may <= data, "C01.h", "return/carried-value-is-data", cst["span"],
              "the carried entry is one of %s" % sorted(may or ()),
              "RETURN can carry a %s entry across the frame: leaving an unfinished FOR loop with "
              "RETURN pushes the loop's marker back above the caller's frames, one stray entry "
              "per call" % sorted((may or {"?"}) - data))
    # control moves only after a Return marker was popped: pc store under variant Return
    pcs = f.field_stores("pc")
    okp = bool(pcs) and all(any(c[0] == "variant" and c[3] == "Return" for c in f.conds_at(b))
                            for b, _s, _v in pcs)
    ctx.check(okp, "C01.h", "return/pc-from-marker", f.span,
              "pc is only assigned from a popped Return marker")
    codes = {c for _b, c, _s in f.error_codes()}
    ctx.check("ReturnWithoutGosub" in codes, "C01.h", "return/empty-stack", f.span,
              "an exhausted stack is RETURN WITHOUT GOSUB")
