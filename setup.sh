#!/bin/sh
# Build the fact extractor (rustc_private driver) offline and warm the dependency cache.
set -e
cd "$(dirname "$0")"
exec python3 -m lib.facts --setup
