"""Sensitivity self-test of one property's rule set (thorough tier).

Every patch listed for the property in mutants/EXPECT.json (hand-written mutants, reverts of
the repairs made to /repo, and the changes seeded by independent agents) is applied to a scratch
copy of the tree under analysis; the quick rule set of the property is run on the copy and has to
report a violation.  Nothing is executed: the copy is only type-checked by the fact extractor.

A patch that no longer applies (the tree moved on) or no longer compiles is skipped and listed;
a patch that applies, compiles and leaves the rules silent is listed as `silent` and reported on
a SELFTEST-SILENT line: the rule set has lost teeth it had when EXPECT.json was recorded.  The
self-test never turns into a VIOLATION of the property - it says something about the checker,
not about /repo.
"""
import concurrent.futures
import json
import os
import shutil
import subprocess
import tempfile

VERIF = os.path.dirname(os.path.dirname(os.path.abspath(__file__)))
EXPECT = os.path.join(VERIF, "mutants", "EXPECT.json")
WORKERS = int(os.environ.get("BL_SELFTEST_WORKERS", "4"))


def expected_for(prop):
    if not os.path.exists(EXPECT):
        return []
    with open(EXPECT) as f:
        ex = json.load(f)
    return sorted(p for p, props in ex.items() if prop in props)


def copy_tree(repo, tmp):
    for n in ("src", "Cargo.toml", "Cargo.lock", "tests"):
        s = os.path.join(repo, n)
        if os.path.isdir(s):
            shutil.copytree(s, os.path.join(tmp, n))
        elif os.path.exists(s):
            shutil.copy(s, os.path.join(tmp, n))


def run_one(args):
    i, prop, repo, rel = args
    patch = os.path.join(VERIF, rel)
    tmp = tempfile.mkdtemp(prefix="blst.")
    try:
        copy_tree(repo, tmp)
        p = subprocess.run(["patch", "-p1", "-s", "-f", "-i", patch], cwd=tmp,
                           stdout=subprocess.PIPE, stderr=subprocess.STDOUT, text=True)
        if p.returncode != 0:
            return rel, "inapplicable", ""
        env = dict(os.environ)
        env["BL_EVIDENCE_DIR"] = os.path.join(tmp, "evidence")
        env["BL_TARGET_SUFFIX"] = "-w%d" % (i % WORKERS)
        r = subprocess.run([os.path.join(VERIF, "check"), prop, "--repo", tmp, "--tier", "quick"],
                           cwd=VERIF, env=env, stdout=subprocess.PIPE, stderr=subprocess.STDOUT,
                           text=True)
        if r.returncode == 1:
            first = [l.strip() for l in r.stdout.splitlines() if l.startswith("  violated:")]
            return rel, "fired", (first[0][10:].strip()[:200] if first else "")
        if r.returncode == 0:
            return rel, "silent", ""
        return rel, "uncompilable", r.stdout[-300:]
    finally:
        shutil.rmtree(tmp, ignore_errors=True)


def run(prop, repo):
    pats = expected_for(prop)
    res = {"patches": len(pats), "fired": 0, "silent": [], "skipped": [], "cases": []}
    if not pats:
        return res
    with concurrent.futures.ThreadPoolExecutor(WORKERS) as ex:
        for rel, status, first in ex.map(run_one, [(i, prop, repo, p) for i, p in enumerate(pats)]):
            if status == "fired":
                res["fired"] += 1
                res["cases"].append({"patch": rel, "reported": first})
            elif status == "silent":
                res["silent"].append(rel)
            else:
                res["skipped"].append({"patch": rel, "why": status})
    return res
