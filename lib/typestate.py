"""May-analysis of the variant of enum-typed places (a small typestate analysis on MIR).

Tracks, per basic block, the set of variants that selected places of one enum type may hold:
the field place given by the caller (e.g. `(*_1).state`) and every plain local of the same type.
Transfer functions:
  place = Adt::Variant(..)          -> {Variant}
  place = move/copy tracked place   -> that place's set
  discriminant(place) + switchInt   -> the edge keeps only the variants it is taken for; an edge
                                       whose set becomes empty is infeasible and not followed
  core::mem::swap(&mut A, &mut B)   -> the two sets are exchanged
  core::mem::replace(&mut A, v)     -> A gets v's set, the result A's old set
  any other call that receives a (re)borrow of the tracked object or of a tracked place, or
  `&mut` of the whole base -> all tracked places based on it become "any variant"
Join is union; iteration to a fixpoint.  Blocks never reached with a non-empty state are
reported as unreachable: that is what discharges a `debug_assert!(matches!(self.state, ..))`.
"""
from lib.mir import op_place, rvalue_operands


def _place_s(p):
    return p.get("s") if p is not None else None


class VariantMay:
    def __init__(self, f, adt, field_place_s, more_fields=(), assume=None):
        self.assume = assume or {}
        self.f = f
        self.adt = adt
        self.all = frozenset(v["name"] for v in f.crate.adts[adt]["variants"])
        self.names = {v["discr"]: v["name"] for v in f.crate.adts[adt]["variants"]}
        self.field = field_place_s
        self.fields = [field_place_s] + list(more_fields)
        self.base_ty = None
        if field_place_s.startswith("(*_"):
            bl = int(field_place_s[3:field_place_s.index(")")])
            ty = f.locals[bl].get("ty", "")
            if ty.startswith("&mut "):
                self.base_ty = ty
        self.tracked = set(self.fields)
        for i, l in enumerate(f.locals):
            if l.get("ty") == adt:
                self.tracked.add("_%d" % i)
        self.bools = {i for i, l in enumerate(f.locals) if l.get("ty") == "bool"}
        self.state_in = {}
        self.run()

    # ---- helpers
    def _cp(self, place):
        try:
            return self.f.cplace(place)
        except Exception:
            return place.get("s")

    def _borrowed_place(self, op):
        """the place a reference operand points to (through temporaries and reborrows), in
        canonical form"""
        p = op_place(op)
        if p is None or p["proj"]:
            return None
        ds = self.f.defs().get(p["local"], [])
        if len(ds) == 1 and ds[0][0] == "stmt" and ds[0][3]["k"] == "ref":
            return self._cp(ds[0][3]["place"])
        return None

    def _havoc(self, st, s):
        if s in self.tracked:
            st[s] = self.all

    def _forget_flags(self, st, place_s):
        for k in list(st):
            if isinstance(k, tuple) and k[0] == "flag" and st[k]:
                st[k] = {c: {p_: (self.all if p_ == place_s else v) for p_, v in m.items()}
                         for c, m in st[k].items()}

    def _transfer_stmt(self, st, stmt):
        if stmt["k"] == "setdiscr":
            s = self._cp(stmt["place"])
            if s in self.tracked:
                nm = self.names.get(stmt.get("variant_discr"), None) or stmt.get("variant")
                st[s] = frozenset([nm]) if nm in self.all else self.all
            return
        if stmt["k"] != "assign":
            return
        pl = stmt["place"]
        if not pl["proj"] and pl["local"] in self.bools:
            # flag correlation: `flag = const` remembers what the tracked places were then
            rv0 = stmt["rv"]
            c = None
            if rv0["k"] == "use" and rv0["op"].get("k") == "const":
                c = rv0["op"]["const"].get("bool")
            key = ("flag", pl["local"])
            if isinstance(c, bool):
                fl = dict(st.get(key) or {}) if st.get(key, {}) is not None else None
                if fl is not None:
                    fl[c] = {p_: st.get(p_, self.all) for p_ in self.fields}
                st[key] = fl
            else:
                st[key] = None
            return
        s = self._cp(stmt["place"])
        rv = stmt["rv"]
        if s in self.tracked:
            if s in self.fields:
                self._forget_flags(st, s)
            if rv["k"] == "aggregate" and rv.get("adt") == self.adt:
                st[s] = frozenset([rv["variant"]])
            elif rv["k"] == "use":
                p = op_place(rv["op"])
                ps = self._cp(p) if p is not None else None
                st[s] = st.get(ps, self.all) if ps in self.tracked else self.all
            else:
                st[s] = self.all
        elif rv["k"] == "ref" and rv.get("mut"):
            # a long-lived &mut to a tracked place that is not consumed by a call we model:
            # handled at the call; nothing here
            pass

    def _transfer_call(self, st, t):
        before = {p_: st.get(p_) for p_ in self.fields}
        self._transfer_call_inner(st, t)
        for p_ in self.fields:
            if st.get(p_) != before[p_]:
                self._forget_flags(st, p_)

    def _transfer_call_inner(self, st, t):
        name = t.get("callee") or ""
        args = t.get("args", [])
        dest = t.get("dest", {}).get("s")
        if name.endswith("mem::swap") and len(args) == 2:
            a, b = self._borrowed_place(args[0]), self._borrowed_place(args[1])
            if a in self.tracked and b in self.tracked:
                st[a], st[b] = st.get(b, self.all), st.get(a, self.all)
                return
        if name.endswith("mem::replace") and len(args) == 2:
            a = self._borrowed_place(args[0])
            p = op_place(args[1])
            if a in self.tracked:
                old = st.get(a, self.all)
                ps = _place_s(p)
                st[a] = st.get(ps, self.all) if ps in self.tracked else self.all
                if dest in self.tracked:
                    st[dest] = old
                return
        for a in args:
            p = op_place(a)
            if p is None:
                continue
            s = p.get("s")
            if s in self.tracked and a["k"] == "move":
                pass
            b = self._borrowed_place(a)
            if b in self.tracked:
                st[b] = self.all
            # the whole object (self) handed to a callee by unique reference: its field may change
            if self.base_ty and not p["proj"] and \
                    self.f.locals[p["local"]].get("ty") == self.base_ty:
                for fld in self.fields:
                    st[fld] = self.all
        if dest in self.tracked:
            st[dest] = self.all

    def _is_mut_ref(self, op):
        p = op_place(op)
        if p is None or p["proj"]:
            return False
        ds = self.f.defs().get(p["local"], [])
        return len(ds) == 1 and ds[0][0] == "stmt" and ds[0][3]["k"] == "ref" and ds[0][3].get("mut")

    def _switch_place(self, bb, t):
        p = op_place(t["discr"])
        if p is None or p["proj"]:
            return None
        for d in self.f.defs().get(p["local"], []):
            if d[0] == "stmt" and d[3]["k"] == "discriminant":
                return self._cp(d[3]["place"])
        return None

    def _flag_of(self, t):
        p = op_place(t["discr"])
        if p is None or p["proj"]:
            return None
        l = p["local"]
        for _ in range(3):
            if l in self.bools and any(d[0] == "stmt" and d[3]["k"] == "use"
                                       and d[3]["op"].get("k") == "const"
                                       for d in self.f.defs().get(l, [])):
                return l
            ds = self.f.defs().get(l, [])
            if len(ds) == 1 and ds[0][0] == "stmt" and ds[0][3]["k"] == "use":
                q = op_place(ds[0][3]["op"])
                if q is not None and not q["proj"]:
                    l = q["local"]
                    continue
            break
        return None

    def _flag_edge(self, st, fact, tb, succs):
        if self.f.is_unreachable_block(tb):
            return
        if fact is None:
            # no path seen so far assigned this constant to the flag: the edge is not (yet)
            # feasible; it is revisited when a path that does arrives at the switch
            return
        s2 = dict(st)
        for p_, allowed in fact.items():
            keep = s2.get(p_, self.all) & allowed
            if not keep:
                return              # this flag value cannot occur with the current sets
            s2[p_] = frozenset(keep)
        succs.append((tb, s2))

    def run(self):
        f = self.f
        init = {s: frozenset(self.assume.get(s, self.all)) for s in self.tracked}
        self.state_in = {0: init}
        work = [0]
        it = 0
        while work and it < 20000:
            it += 1
            b = work.pop()
            st = dict(self.state_in[b])
            for stmt in f.blocks[b]["stmts"]:
                self._transfer_stmt(st, stmt)
            t = f.term(b)
            succs = []
            if t["k"] == "call":
                self._transfer_call(st, t)
                if t.get("target") is not None:
                    succs.append((t["target"], st))
            elif t["k"] == "switch":
                ps = self._switch_place(b, t)
                if ps in self.tracked:
                    listed = set()
                    by = {}
                    for val, tb in t["targets"]:
                        nm = self.names.get(val)
                        listed.add(nm)
                        by.setdefault(tb, set()).add(nm)
                    for tb, nms in by.items():
                        keep = st[ps] & frozenset(nms)
                        if tb == t["otherwise"]:
                            keep = keep | (st[ps] - frozenset(listed))
                        if keep:
                            s2 = dict(st)
                            s2[ps] = frozenset(keep)
                            succs.append((tb, s2))
                    if t["otherwise"] not in by:
                        keep = st[ps] - frozenset(listed)
                        if keep:
                            s2 = dict(st)
                            s2[ps] = frozenset(keep)
                            succs.append((t["otherwise"], s2))
                else:
                    fl = self._flag_of(t)
                    facts = st.get(("flag", fl)) if fl is not None else None
                    if facts:
                        seen_t = set()
                        for val, tb in t["targets"]:
                            seen_t.add(bool(val))
                            self._flag_edge(st, facts.get(bool(val)), tb, succs)
                        rest = [c for c in (True, False) if c not in seen_t]
                        if len(rest) == 1:
                            self._flag_edge(st, facts.get(rest[0]), t["otherwise"], succs)
                        else:
                            succs.append((t["otherwise"], st))
                    else:
                        for sb in f.succ(b):
                            succs.append((sb, st))
            else:
                for sb in f.succ(b):
                    succs.append((sb, st))
            for sb, s2 in succs:
                old = self.state_in.get(sb)
                if old is None:
                    self.state_in[sb] = dict(s2)
                    work.append(sb)
                else:
                    changed = False
                    for k in self.tracked:
                        u = old.get(k, frozenset()) | s2.get(k, frozenset())
                        if u != old.get(k):
                            old[k] = u
                            changed = True
                    for k in set(old) | set(s2):
                        if not (isinstance(k, tuple) and k[0] == "flag"):
                            continue
                        a, b2 = old.get(k, {}), s2.get(k, {})
                        if a is None or b2 is None:
                            m = None
                        else:
                            m = {}
                            for c in set(a) | set(b2):
                                x, y = a.get(c), b2.get(c)
                                if x is None or y is None:
                                    m[c] = dict(x or y)
                                else:
                                    m[c] = {p_: frozenset(x.get(p_, self.all)) | frozenset(y.get(p_, self.all))
                                            for p_ in set(x) | set(y)}
                        if m != old.get(k, {}):
                            old[k] = m
                            changed = True
                    if changed:
                        work.append(sb)

    def reachable(self, bb):
        return bb in self.state_in

    def at(self, bb, place=None):
        st = self.state_in.get(bb)
        if st is None:
            return None
        return st.get(place or self.field)
