"""Obligation bookkeeping, known findings, evidence and VIOLATION output."""
import json
import os
import time

VERIF = os.path.dirname(os.path.dirname(os.path.abspath(__file__)))
KNOWN_FILE = os.path.join(VERIF, "known_findings.json")


class Ob:
    __slots__ = ("rule", "key", "ok", "where", "detail", "trivial")

    def __init__(self, rule, key, ok, where, detail, trivial=False):
        self.rule = rule
        self.key = key
        self.ok = ok
        self.where = where
        self.detail = detail
        self.trivial = trivial

    def as_json(self):
        return {"rule": self.rule, "key": self.key, "verdict": "holds" if self.ok else "VIOLATED",
                "where": self.where, "detail": self.detail}


class Ctx:
    """One check run of one property."""

    def __init__(self, prop, tier, lib, load_bin, load_cfg=None):
        self.prop = prop
        self.tier = tier
        self.lib = lib
        self._load_bin = load_bin
        self._bin = None
        self._load_cfg = load_cfg
        self.obs = []
        self.rules = {}       # rule id -> text
        self.assumptions = []
        self.notes = []
        self.fns_analysed = set()
        self.cfg = "dev"      # compilation configuration of self.lib (thorough re-runs on "rel")
        self.extra_cov = {}

    @property
    def bin(self):
        if self._bin is None:
            self._bin = self._load_bin()
        return self._bin

    def alt_crate(self, cfg):
        return self._load_cfg(cfg)

    def rule(self, rid, text):
        self.rules[rid] = text

    def assume(self, text):
        if text not in self.assumptions:
            self.assumptions.append(text)

    def touch(self, *fns):
        for f in fns:
            self.fns_analysed.add(f if isinstance(f, str) else f.path)

    def ok(self, rule, key, where="", detail="", trivial=False):
        self.obs.append(Ob(rule, "%s/%s" % (rule, key), True, _where(where), detail, trivial))

    def bad(self, rule, key, where="", detail=""):
        self.obs.append(Ob(rule, "%s/%s" % (rule, key), False, _where(where), detail))

    def check(self, cond, rule, key, where="", detail="", bad_detail=None):
        if cond:
            self.ok(rule, key, where, detail)
        else:
            self.bad(rule, key, where, bad_detail if bad_detail is not None else detail)
        return cond

    def floor(self, rule, what, n, floor, rel=None):
        """fail closed when a rule sees fewer instances than were counted by hand (`rel`: the
        count confirmed for the release-like configuration, where it differs)"""
        if self.cfg == "rel" and rel is not None:
            floor = rel
        if n < floor:
            self.bad(rule, "anchor/%s" % what, "",
                     "rule ranges over %d instance(s) of %s; at least %d were confirmed on the "
                     "pinned tree (fail closed: the construct the rule keys on has moved or "
                     "vanished)" % (n, what, floor))
            return False
        return True

    def missing(self, rule, what):
        self.bad(rule, "anchor/%s" % what, "", "anchor not found: %s (fail closed)" % what)


def _where(w):
    if isinstance(w, dict):
        return "%s:%d" % (w["file"], w["line"])
    return w or ""


def load_known():
    if not os.path.exists(KNOWN_FILE):
        return {"known": [], "fixed": []}
    with open(KNOWN_FILE) as f:
        return json.load(f)


def finish(ctx, t0, seed=0, extra_cov=None):
    known = load_known()
    known_keys = {(k["property"], k["key"]): k for k in known.get("known", [])}
    viol = []
    kf = []
    for ob in ctx.obs:
        if ob.ok:
            continue
        base_key = ob.key[:-4] if ob.key.endswith("@rel") else ob.key
        kk = known_keys.get((ctx.prop, base_key))   # the same construct in either configuration
        if kk is not None:
            kf.append((ob, kk))
        else:
            viol.append(ob)
    ev_dir = os.environ.get("BL_EVIDENCE_DIR") or os.path.join(VERIF, "evidence")
    os.makedirs(os.path.join(ev_dir, "replay"), exist_ok=True)
    for n in os.listdir(os.path.join(ev_dir, "replay")):
        if n.startswith(ctx.prop + "-"):
            os.remove(os.path.join(ev_dir, "replay", n))
    for ob, kk in kf:
        print("KNOWN-FINDING: property=%s %s -- %s [%s]" % (ctx.prop, ob.key, kk.get("what", ob.detail),
                                                           ob.where))
    # one VIOLATION line per violated obligation
    for i, ob in enumerate(viol, 1):
        rp = os.path.join(ev_dir, "replay", "%s-%d.json" % (ctx.prop, i))
        with open(rp, "w") as f:
            json.dump({"property": ctx.prop, "key": ob.key, "rule": ob.rule,
                       "rule_text": ctx.rules.get(ob.rule, ""), "where": ob.where,
                       "detail": ob.detail}, f, indent=1)
        print("  violated: %s at %s: %s" % (ob.key, ob.where, ob.detail))
        print("VIOLATION property=%s replay=%s" % (ctx.prop, rp))
    keys = {}
    for ob in ctx.obs:
        keys.setdefault(ob.key, ob)
    nontrivial = [ob for ob in keys.values() if not ob.trivial]
    samples = []
    seen_rules = set()
    for ob in ctx.obs:          # one sample per rule first
        if ob.rule not in seen_rules:
            seen_rules.add(ob.rule)
            samples.append(ob.as_json())
    for ob in ctx.obs:
        if len(samples) >= 60:
            break
        if not ob.ok and ob.as_json() not in samples:
            samples.append(ob.as_json())
    cov = {
        "explanation": ("static analysis over rustc MIR of /repo's working tree: every "
                        "obligation below is a source construct (function, call site, match arm, "
                        "CFG path) that a repository-specific rule had to discharge; the rule set "
                        "ranges over all bodies it names, it does not sample"),
        "evaluations": len(ctx.obs),
        "distinct_nontrivial": len(nontrivial),
        "obligations": len(ctx.obs),
        "discharged": sum(1 for ob in ctx.obs if ob.ok),
        "rule": ("one evaluation = one (rule, construct) obligation; distinct = distinct "
                 "obligation key (rule/function/construct, no line numbers); non-trivial = the rule "
                 "had to inspect MIR of that construct (anchors and inventory rows that are "
                 "accepted by table lookup alone are marked trivial and not counted)"),
        "rules": ctx.rules,
        "per_rule": _per_rule(ctx),
        "functions_analysed": len(ctx.fns_analysed),
        "functions_sample": sorted(ctx.fns_analysed)[:40],
        "samples": samples,
        "exhaustive": True,
        "known_findings_matched": [ob.key for ob, _ in kf],
        "notes": ctx.notes,
    }
    if extra_cov:
        cov.update(extra_cov)
    ev = {
        "property_id": ctx.prop,
        "tier": ctx.tier,
        "seed": int(seed),
        "level": "other",
        "coverage": cov,
        "assumptions": ctx.assumptions,
        "wall_s": round(time.time() - t0, 3),
        "violations": len(viol),
    }
    with open(os.path.join(ev_dir, "%s.json" % ctx.prop), "w") as f:
        json.dump(ev, f, indent=1, sort_keys=False)
    print("%s[%s]: %d obligations, %d distinct non-trivial, %d violated, %d known findings, "
          "%d functions analysed, %.1fs" % (ctx.prop, ctx.tier, len(ctx.obs), len(nontrivial),
                                            len(viol), len(kf), len(ctx.fns_analysed),
                                            time.time() - t0))
    return 1 if viol else 0


def _per_rule(ctx):
    out = {}
    for ob in ctx.obs:
        d = out.setdefault(ob.rule, {"obligations": 0, "violated": 0})
        d["obligations"] += 1
        if not ob.ok:
            d["violated"] += 1
    return out
