"""Fact extraction: build the rustc_private driver, run it over /repo's current working
tree under `cargo +nightly check`, cache the JSON by content hash, load it.

Nothing here runs the interpreter or its tests: `cargo check` only type-checks and builds MIR.
"""
import fcntl
import hashlib
import json
import os
import shutil
import subprocess
import sys
import tempfile
import time

VERIF = os.path.dirname(os.path.dirname(os.path.abspath(__file__)))
REPO = os.environ.get("BL_REPO", "/repo")
CACHE = os.path.join(VERIF, ".cache")
DRIVER_DIR = os.path.join(VERIF, "driver")
DRIVER_TARGET = os.path.join(CACHE, "driver-target")
DRIVER_BIN = os.path.join(DRIVER_TARGET, "debug", "bl-facts")

CONFIGS = {
    # the real dev build: debug assertions + overflow checks on
    "dev": "-Zmir-opt-level=0 -Awarnings",
    # release-like: debug_assert! bodies and overflow Assert terminators disappear
    "rel": "-Zmir-opt-level=0 -Awarnings -C debug-assertions=off -C overflow-checks=off",
}


class ExtractError(Exception):
    pass


def _env():
    env = dict(os.environ)
    env["CARGO_NET_OFFLINE"] = "true"
    env.pop("RUSTC_WRAPPER", None)
    return env


def _sysroot():
    return subprocess.check_output(
        ["rustc", "+nightly", "--print", "sysroot"], env=_env(), text=True
    ).strip()


def _newest_mtime(root):
    m = 0.0
    for d, _ds, fs in os.walk(root):
        if "/.cargo" in d:
            continue
        for f in fs:
            m = max(m, os.path.getmtime(os.path.join(d, f)))
    return m


def build_driver(verbose=False):
    os.makedirs(CACHE, exist_ok=True)
    src_m = max(_newest_mtime(os.path.join(DRIVER_DIR, "src")),
                os.path.getmtime(os.path.join(DRIVER_DIR, "Cargo.toml")))
    if os.path.exists(DRIVER_BIN) and os.path.getmtime(DRIVER_BIN) >= src_m:
        return DRIVER_BIN
    env = _env()
    env["CARGO_TARGET_DIR"] = DRIVER_TARGET
    p = subprocess.run(["cargo", "+nightly", "build", "--offline"], cwd=DRIVER_DIR, env=env,
                       stdout=subprocess.PIPE, stderr=subprocess.STDOUT, text=True)
    if p.returncode != 0 or not os.path.exists(DRIVER_BIN):
        raise ExtractError("driver build failed:\n" + p.stdout[-4000:])
    if verbose:
        print(p.stdout[-400:])
    return DRIVER_BIN


def tree_hash(repo, cfg):
    h = hashlib.sha256()
    h.update(cfg.encode())
    for rel in ("Cargo.toml", "Cargo.lock"):
        p = os.path.join(repo, rel)
        if os.path.exists(p):
            h.update(rel.encode())
            h.update(open(p, "rb").read())
    files = []
    for d, ds, fs in os.walk(os.path.join(repo, "src")):
        ds.sort()
        for f in sorted(fs):
            files.append(os.path.join(d, f))
    for p in sorted(files):
        h.update(os.path.relpath(p, repo).encode())
        h.update(b"\0")
        h.update(open(p, "rb").read())
        h.update(b"\0")
    with open(build_driver(), "rb") as f:
        h.update(hashlib.sha256(f.read()).digest())
    return h.hexdigest()[:24]


def extract(repo=None, cfg="dev", target_dir=None, use_cache=True):
    """Returns directory containing basic.rlib.json and basic.executable.json."""
    repo = repo or REPO
    drv = build_driver()
    key = tree_hash(repo, cfg)
    out = os.path.join(CACHE, "facts", key)
    want = [os.path.join(out, "basic.rlib.json"), os.path.join(out, "basic.executable.json")]
    if use_cache and all(os.path.exists(w) for w in want):
        try:
            os.utime(out, None)
        except OSError:
            pass
        return out
    os.makedirs(os.path.join(CACHE, "facts"), exist_ok=True)
    suffix = os.environ.get("BL_TARGET_SUFFIX", "")
    target_dir = target_dir or os.path.join(CACHE, "target-" + cfg + suffix)
    base_target = os.path.join(CACHE, "target-" + cfg)
    lock = open(os.path.join(CACHE, "extract.%s%s.lock" % (cfg, suffix)), "w")
    fcntl.flock(lock, fcntl.LOCK_EX)
    try:
        if use_cache and all(os.path.exists(w) for w in want):
            return out
        if not os.path.isdir(target_dir) and target_dir != base_target and os.path.isdir(base_target):
            # a worker's private target dir starts as a copy of the main one (dependencies
            # are already checked there), instead of rebuilding them cold
            shutil.copytree(base_target, target_dir, symlinks=True)
        os.makedirs(target_dir, exist_ok=True)
        t0 = time.time()
        # cargo's freshness cache would skip the wrapper: drop the member's fingerprints
        fp = os.path.join(target_dir, "debug", ".fingerprint")
        if os.path.isdir(fp):
            for n in os.listdir(fp):
                if n.startswith("basic-lang-"):
                    shutil.rmtree(os.path.join(fp, n), ignore_errors=True)
        tmp = tempfile.mkdtemp(prefix="facts.", dir=os.path.join(CACHE, "facts"))
        env = _env()
        env["LD_LIBRARY_PATH"] = _sysroot() + "/lib:" + env.get("LD_LIBRARY_PATH", "")
        env["RUSTFLAGS"] = CONFIGS[cfg]
        env["RUSTC_WORKSPACE_WRAPPER"] = drv
        env["BL_FACTS_DIR"] = tmp
        env["CARGO_TARGET_DIR"] = target_dir
        p = subprocess.run(
            ["cargo", "+nightly", "check", "--offline", "--lib", "--bins"],
            cwd=repo, env=env, stdout=subprocess.PIPE, stderr=subprocess.STDOUT, text=True)
        got = [os.path.join(tmp, os.path.basename(w)) for w in want]
        if p.returncode != 0 or not all(os.path.exists(g) for g in got):
            shutil.rmtree(tmp, ignore_errors=True)
            raise ExtractError("fact extraction failed (crate does not compile, or driver "
                               "was skipped):\n" + p.stdout[-6000:])
        for g in got:
            if os.path.getmtime(g) < t0 - 1:
                raise ExtractError("stale fact file " + g)
        if os.path.isdir(out):
            shutil.rmtree(out, ignore_errors=True)
        os.rename(tmp, out)
        _prune(os.path.join(CACHE, "facts"), keep=30)
        return out
    finally:
        fcntl.flock(lock, fcntl.LOCK_UN)
        lock.close()


def _prune(d, keep):
    ents = [os.path.join(d, n) for n in os.listdir(d)]
    ents = [e for e in ents if os.path.isdir(e)]
    ents.sort(key=os.path.getmtime, reverse=True)
    for e in ents[keep:]:
        shutil.rmtree(e, ignore_errors=True)


def load(repo=None, cfg="dev", kind="rlib"):
    d = extract(repo, cfg)
    with open(os.path.join(d, "basic.%s.json" % kind)) as f:
        return json.load(f)


def main(argv):
    if "--setup" in argv:
        t0 = time.time()
        build_driver(verbose=True)
        print("driver built: %s (%.1fs)" % (DRIVER_BIN, time.time() - t0))
        for cfg in ("dev",):
            d = extract(cfg=cfg)
            print("facts[%s]: %s (%.1fs)" % (cfg, d, time.time() - t0))
        return 0
    print(extract())
    return 0


if __name__ == "__main__":
    try:
        sys.exit(main(sys.argv[1:]))
    except ExtractError as e:
        print("EXTRACT-ERROR:", e)
        sys.exit(2)
