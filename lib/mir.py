"""MIR model over the JSON facts: CFG, dominators, def-use / value chasing, edge conditions
and must-hold path conditions, call graph. No rule logic here."""
import re
from collections import defaultdict, deque

LOCAL_RE = re.compile(r"_(\d+)")


class Crate:
    def __init__(self, js):
        self.js = js
        self.name = js["crate"]
        self.kind = js["crate_type"]
        self.fns = {}
        for f in js["fns"]:
            fn = Fn(f, self)
            self.fns[fn.path] = fn
        self.adts = {a["path"]: a for a in js["adts"]}
        self.consts = {c["path"]: c for c in js["consts"]}
        self.unanalysed = js.get("unanalysed", [])
        self._callers = None

    def fn(self, path):
        return self.fns.get(path)

    def need_fn(self, path):
        f = self.fns.get(path)
        if f is None:
            raise MissingAnchor("function not found: " + path)
        return f

    def need_adt(self, path):
        a = self.adts.get(path)
        if a is None:
            raise MissingAnchor("type not found: " + path)
        return a

    def fns_in(self, prefix):
        return [f for p, f in self.fns.items()
                if p.startswith(prefix) or p.startswith("<" + prefix)]

    def closures_of(self, path):
        return [f for p, f in self.fns.items() if p.startswith(path + "::{closure#")]

    def family(self, path):
        """fn + its closures + nested fns"""
        return [f for p, f in self.fns.items() if p == path or p.startswith(path + "::")]

    def variants(self, adt_path):
        return [v["name"] for v in self.need_adt(adt_path)["variants"]]

    def fields(self, adt_path):
        a = self.need_adt(adt_path)
        return a["variants"][0]["fields"]

    # ---- call graph -------------------------------------------------------------------
    def callees(self, fn):
        out = set()
        for c in fn.calls():
            for t in (c.resolved, c.callee):
                if t and t in self.fns:
                    out.add(t)
            for a in c.args:
                fd = fn_def_of(a)
                if fd and fd in self.fns:
                    out.add(fd)
                    continue
                # `&Operation::negate` is passed as a reference to a promoted ZST
                v = fn.value_of_operand(a)
                fd = v.get("fn_def") if v else None
                if fd and fd in self.fns:
                    out.add(fd)
        # fn items / closures mentioned as constants or aggregates
        for bb in fn.blocks:
            for st in bb["stmts"]:
                if st["k"] != "assign":
                    continue
                rv = st["rv"]
                if rv["k"] == "aggregate" and rv.get("agg") == "closure":
                    if rv["closure"] in self.fns:
                        out.add(rv["closure"])
                for op in rvalue_operands(rv):
                    fd = fn_def_of(op)
                    if fd and fd in self.fns:
                        out.add(fd)
        for pb in fn.promoted:
            for bb in pb["blocks"]:
                for st in bb["stmts"]:
                    if st["k"] == "assign":
                        for op in rvalue_operands(st["rv"]):
                            fd = fn_def_of(op)
                            if fd and fd in self.fns:
                                out.add(fd)
        return out

    def call_graph(self):
        if getattr(self, "_cg", None) is None:
            self._cg = {p: self.callees(f) for p, f in self.fns.items()}
        return self._cg

    def reachable_from(self, roots):
        cg = self.call_graph()
        seen = {}
        dq = deque()
        for r in roots:
            if r in self.fns and r not in seen:
                seen[r] = None
                dq.append(r)
        while dq:
            p = dq.popleft()
            for q in sorted(cg.get(p, ())):
                if q not in seen:
                    seen[q] = p
                    dq.append(q)
        return seen  # path -> predecessor (for shortest call chains)

    def call_chain(self, seen, path):
        chain = [path]
        while seen.get(chain[-1]) is not None:
            chain.append(seen[chain[-1]])
        return list(reversed(chain))

    def callers_of(self, path):
        if self._callers is None:
            self._callers = defaultdict(set)
            for p, cs in self.call_graph().items():
                for c in cs:
                    self._callers[c].add(p)
        return self._callers.get(path, set())


class MissingAnchor(Exception):
    pass


def fn_def_of(op):
    if op and op.get("k") == "const":
        return op["const"].get("fn_resolved") or op["const"].get("fn_def")
    return None


def rvalue_operands(rv):
    k = rv["k"]
    if k in ("use", "repeat", "cast"):
        return [rv["op"]]
    if k == "binop":
        return [rv["l"], rv["r"]]
    if k == "unop":
        return [rv["o"]]
    if k == "aggregate":
        return rv["ops"]
    return []


def op_place(op):
    if op and op.get("k") in ("copy", "move"):
        return op["place"]
    return None


def op_const(op):
    if op and op.get("k") == "const":
        return op["const"]
    return None


def const_val(c):
    """python value of a constant json (int/str/bool/char/float) or None"""
    if c is None:
        return None
    for k in ("str", "bool", "char", "int", "float"):
        if k in c:
            if k == "char":
                return c["char"]
            return c[k]
    return None


def loc(span):
    return "%s:%d" % (span["file"], span["line"])


class Call:
    __slots__ = ("fn", "bb", "term", "callee", "resolved", "args", "dest", "target", "span",
                 "callee_args", "self_ty")

    def __init__(self, fn, bb, term):
        self.fn = fn
        self.bb = bb
        self.term = term
        self.callee = term.get("callee")
        self.resolved = term.get("resolved")
        self.callee_args = term.get("callee_args")
        self.self_ty = term.get("self_ty")
        self.args = term["args"]
        self.dest = term["dest"]
        self.target = term["target"]
        self.span = term["span"]

    @property
    def name(self):
        """best name: resolved impl method if known else the callee as written"""
        return self.resolved or self.callee or "<indirect>"

    def is_(self, *names):
        return self.callee in names or self.resolved in names

    def matches(self, rx):
        return bool((self.callee and re.search(rx, self.callee))
                    or (self.resolved and re.search(rx, self.resolved)))

    @property
    def from_expansion(self):
        return self.span.get("exp", False)

    @property
    def macros(self):
        return self.span.get("macros", [])

    def __repr__(self):
        return "Call(%s @bb%d %s)" % (self.name, self.bb, loc(self.span))


class Fn:
    def __init__(self, js, crate):
        self.js = js
        self.crate = crate
        self.path = js["path"]
        self.blocks = js["blocks"]
        self.locals = js["locals"]
        self.arg_count = js["arg_count"]
        self.promoted = js.get("promoted", [])
        self.span = js["span"]
        self.body_span = js.get("body_span", js["span"])
        self.vis = js.get("vis")
        self.debug = js["debug"]
        self._succ = None
        self._pred = None
        self._dom = None
        self._pdom = None
        self._defs = None
        self._reach = None
        self._conds = None
        self._cond_deps = {}
        self._cond_src = {}

    def __repr__(self):
        return "Fn(%s)" % self.path

    def promoted_fns(self):
        """promoted constant bodies wrapped as Fn objects (path: <fn>::{promoted#i})"""
        out = []
        for i, pb in enumerate(self.promoted):
            js = dict(pb)
            js["path"] = "%s::{promoted#%d}" % (self.path, i)
            js["span"] = self.span
            js.setdefault("promoted", [])
            out.append(Fn(js, self.crate))
        return out

    @property
    def file(self):
        return self.span["file"]

    @property
    def line(self):
        return self.span["line"]

    # ---- names ------------------------------------------------------------------------
    def locals_named(self, name):
        out = []
        for d in self.debug:
            if d["name"] == name and "place" in d and not d["place"]["proj"]:
                out.append(d["place"]["local"])
        return out

    def name_of_local(self, l):
        for d in self.debug:
            if "place" in d and not d["place"]["proj"] and d["place"]["local"] == l:
                return d["name"]
        return None

    def local_ty(self, l):
        return self.locals[l]["ty"]

    # ---- CFG --------------------------------------------------------------------------
    def term(self, bb):
        return self.blocks[bb].get("term") or {"k": "none"}

    def succ(self, bb):
        if self._succ is None:
            self._succ = [self._succ_of(i) for i in range(len(self.blocks))]
        return self._succ[bb]

    def _succ_of(self, bb):
        t = self.term(bb)
        k = t["k"]
        if k == "goto":
            return [t["target"]]
        if k == "switch":
            out = []
            for _v, b in t["targets"]:
                if b not in out:
                    out.append(b)
            if t["otherwise"] not in out:
                out.append(t["otherwise"])
            return out
        if k in ("call",):
            return [t["target"]] if t["target"] is not None else []
        if k in ("drop", "assert"):
            return [t["target"]]
        if k == "other":
            return [s for s in t.get("succ", []) if not self.blocks[s].get("cleanup")]
        return []

    def pred(self, bb):
        if self._pred is None:
            self._pred = [[] for _ in self.blocks]
            for i in self.reachable():
                for s in self.succ(i):
                    self._pred[s].append(i)
        return self._pred[bb]

    def reachable(self):
        if self._reach is None:
            seen = [0]
            ss = {0}
            i = 0
            while i < len(seen):
                for s in self.succ(seen[i]):
                    if s not in ss:
                        ss.add(s)
                        seen.append(s)
                i += 1
            # drop blocks that are `unreachable` terminators only
            self._reach = seen
        return self._reach

    def return_blocks(self):
        return [b for b in self.reachable() if self.term(b)["k"] == "return"]

    def is_unreachable_block(self, bb):
        return self.term(bb)["k"] == "unreachable" and not self.blocks[bb]["stmts"]

    def rpo(self):
        seen = set()
        order = []

        def dfs(b):
            stack = [(b, iter(self.succ(b)))]
            seen.add(b)
            while stack:
                n, it = stack[-1]
                adv = False
                for s in it:
                    if s not in seen:
                        seen.add(s)
                        stack.append((s, iter(self.succ(s))))
                        adv = True
                        break
                if not adv:
                    order.append(n)
                    stack.pop()
        dfs(0)
        return list(reversed(order))

    def dominators(self):
        """dom[b] = set of blocks dominating b (incl. b)"""
        if self._dom is None:
            order = self.rpo()
            allb = set(order)
            dom = {b: set(allb) for b in order}
            dom[0] = {0}
            changed = True
            while changed:
                changed = False
                for b in order:
                    if b == 0:
                        continue
                    ps = [p for p in self.pred(b) if p in dom]
                    new = set.intersection(*[dom[p] for p in ps]) if ps else set()
                    new = new | {b}
                    if new != dom[b]:
                        dom[b] = new
                        changed = True
            self._dom = dom
        return self._dom

    def dominates(self, a, b):
        return a in self.dominators().get(b, ())

    def can_reach(self, a, b, avoid=()):
        """is there a CFG path a ->+ b (at least one edge unless a==b allowed) avoiding blocks"""
        seen = set()
        dq = deque(self.succ(a))
        while dq:
            n = dq.popleft()
            if n in seen or n in avoid:
                continue
            if n == b:
                return True
            seen.add(n)
            dq.extend(self.succ(n))
        return False

    def reach_set(self, start, avoid=()):
        seen = set()
        dq = deque([start])
        while dq:
            n = dq.popleft()
            if n in seen or n in avoid:
                continue
            seen.add(n)
            dq.extend(self.succ(n))
        return seen

    def sccs(self):
        """Tarjan over reachable blocks; returns list of lists (only cyclic components)"""
        index = {}
        low = {}
        onstack = set()
        stack = []
        out = []
        counter = [0]
        for root in self.reachable():
            if root in index:
                continue
            work = [(root, 0)]
            while work:
                v, i = work.pop()
                if i == 0:
                    index[v] = low[v] = counter[0]
                    counter[0] += 1
                    stack.append(v)
                    onstack.add(v)
                recurse = False
                succs = self.succ(v)
                for j in range(i, len(succs)):
                    w = succs[j]
                    if w not in index:
                        work.append((v, j + 1))
                        work.append((w, 0))
                        recurse = True
                        break
                    elif w in onstack:
                        low[v] = min(low[v], index[w])
                if recurse:
                    continue
                if low[v] == index[v]:
                    comp = []
                    while True:
                        w = stack.pop()
                        onstack.discard(w)
                        comp.append(w)
                        if w == v:
                            break
                    if len(comp) > 1 or v in self.succ(v):
                        out.append(comp)
                if work:
                    u = work[-1][0]
                    low[u] = min(low[u], low[v])
        return out

    # ---- calls ------------------------------------------------------------------------
    def calls(self):
        out = []
        for b in self.reachable():
            t = self.term(b)
            if t["k"] == "call":
                out.append(Call(self, b, t))
        return out

    def calls_to(self, *names):
        return [c for c in self.calls() if c.is_(*names)]

    def calls_matching(self, rx):
        return [c for c in self.calls() if c.matches(rx)]

    def call_at(self, bb):
        t = self.term(bb)
        return Call(self, bb, t) if t["k"] == "call" else None

    # ---- defs -------------------------------------------------------------------------
    def defs(self):
        """local -> list of ('stmt', bb, idx, rvalue) | ('call', bb, Call) | ('arg',)"""
        if self._defs is None:
            d = defaultdict(list)
            for l in range(1, self.arg_count + 1):
                d[l].append(("arg",))
            for b in self.reachable():
                for i, st in enumerate(self.blocks[b]["stmts"]):
                    if st["k"] == "assign":
                        pl = st["place"]
                        if not pl["proj"]:
                            d[pl["local"]].append(("stmt", b, i, st["rv"]))
                        else:
                            d[pl["local"]].append(("partial", b, i, st))
                    elif st["k"] == "setdiscr":
                        d[st["place"]["local"]].append(("partial", b, i, st))
                t = self.term(b)
                if t["k"] == "call":
                    pl = t["dest"]
                    if not pl["proj"]:
                        d[pl["local"]].append(("call", b, Call(self, b, t)))
                    else:
                        d[pl["local"]].append(("partial", b, -1, t))
            self._defs = d
        return self._defs

    def single_def(self, l):
        ds = self.defs().get(l, [])
        if len(ds) == 1:
            return ds[0]
        return None

    def canon_place(self, place, depth=0, deps=None):
        """Rewrite a place through single-def temporaries into a canonical string rooted at an
        argument, a multiply-defined local, a call result or a non-trivial rvalue.
        Returns (string, deps:set of locals traversed)."""
        if deps is None:
            deps = set()
        l = place["local"]
        deps.add(l)
        base = self._canon_local(l, depth, deps)
        s = base
        for e in place["proj"]:
            k = e["k"]
            if k == "deref":
                if s.startswith("&mut "):
                    s = s[5:]
                elif s.startswith("&"):
                    s = s[1:]
                else:
                    s = "(*%s)" % s
            elif k == "field":
                s = "%s.%s" % (s, e["name"])
            elif k == "downcast":
                s = "(%s as %s)" % (s, e["variant"])
            elif k == "index":
                iv = self.value_of_local(e["local"])
                cv = const_val(iv["const"]) if iv.get("k") == "const" else None
                if cv is not None:
                    s = "%s[%s]" % (s, cv)
                else:
                    s = "%s[_%d]" % (s, e["local"])
            elif k == "constindex":
                s = "%s[%s%d]" % (s, "-" if e["from_end"] else "", e["offset"])
            else:
                s = "%s.<%s>" % (s, k)
        return s, deps

    def _canon_local(self, l, depth, deps):
        if depth > 12:
            return "_%d" % l
        sd = self.single_def(l)
        if sd is None or sd[0] != "stmt":
            return "_%d" % l
        rv = sd[3]
        if rv["k"] == "use":
            p = op_place(rv["op"])
            if p is not None:
                s, _ = self.canon_place(p, depth + 1, deps)
                return s
        elif rv["k"] == "ref":
            s, _ = self.canon_place(rv["place"], depth + 1, deps)
            return ("&mut " if rv["mut"] else "&") + s
        return "_%d" % l

    def cplace(self, place):
        return self.canon_place(place)[0]

    def value_of_local(self, l, depth=0):
        """Chase a local to a describing dict:
        {'k':'const','const':..} | {'k':'arg','n':i} | {'k':'call','call':Call} |
        {'k':'rv','rv':rvalue,'bb':..,'idx':..} | {'k':'place','s':canon} | {'k':'multi'}"""
        ds = self.defs().get(l, [])
        if len(ds) != 1:
            if not ds:
                return {"k": "undef", "local": l}
            return {"k": "multi", "local": l, "defs": ds}
        d = ds[0]
        if d[0] == "arg":
            return {"k": "arg", "n": l, "local": l}
        if d[0] == "call":
            return {"k": "call", "call": d[2], "local": l}
        if d[0] != "stmt":
            return {"k": "multi", "local": l, "defs": ds}
        rv = d[3]
        if rv["k"] == "use" and depth < 16:
            v = self.value_of_operand(rv["op"], depth + 1)
            if v is not None:
                return v
        if rv["k"] == "ref" and depth < 16 and len(rv["place"]["proj"]) == 1 and \
                rv["place"]["proj"][0]["k"] == "deref":
            # &*x is x (reborrow)
            v = self.value_of_local(rv["place"]["local"], depth + 1)
            if v.get("k") in ("const", "call", "arg"):
                return v
        if rv["k"] == "ref" and depth < 16 and not rv["place"]["proj"]:
            # &local : look through (used for `&Operation::negate`, `&*x`)
            v = self.value_of_local(rv["place"]["local"], depth + 1)
            if v.get("k") in ("const",):
                return v
        return {"k": "rv", "rv": rv, "bb": d[1], "idx": d[2], "local": l}

    def value_of_operand(self, op, depth=0):
        c = op_const(op)
        if c is not None:
            out = {"k": "const", "const": c}
            if "fn_def" in c:
                out["fn_def"] = c.get("fn_resolved") or c["fn_def"]
            if "promoted" in c:
                pv = self._promoted_value(c["promoted"])
                if pv is not None:
                    return pv
            return out
        p = op_place(op)
        if p is None:
            return None
        if not p["proj"]:
            return self.value_of_local(p["local"], depth)
        # `.0` of a checked-arithmetic tuple is the arithmetic result
        if len(p["proj"]) == 1 and p["proj"][0]["k"] == "field" and p["proj"][0].get("idx") == 0:
            v = self.value_of_local(p["local"], depth)
            if v.get("k") == "rv" and v["rv"]["k"] == "binop" and \
                    v["rv"]["op"].endswith("WithOverflow"):
                return v
        # deref of a reference to a single-def local / promoted
        if len(p["proj"]) == 1 and p["proj"][0]["k"] == "deref":
            v = self.value_of_local(p["local"], depth)
            if v.get("k") == "const":
                return v
            if v.get("k") == "rv" and v["rv"]["k"] == "ref":
                inner = v["rv"]["place"]
                if not inner["proj"]:
                    return self.value_of_local(inner["local"], depth + 1)
        return {"k": "place", "s": self.cplace(p), "place": p}

    def _promoted_value(self, idx):
        """value stored by promoted body idx into its _0 (a reference to a temp)."""
        try:
            pb = self.promoted[idx]
        except IndexError:
            return None
        consts = []
        for bb in pb["blocks"]:
            for st in bb["stmts"]:
                if st["k"] == "assign":
                    for op in rvalue_operands(st["rv"]):
                        c = op_const(op)
                        if c is not None:
                            consts.append(c)
        if len(consts) == 1:
            c = consts[0]
            out = {"k": "const", "const": c, "via_promoted": idx}
            if "fn_def" in c:
                out["fn_def"] = c.get("fn_resolved") or c["fn_def"]
            return out
        return {"k": "promoted", "idx": idx, "consts": consts}

    def const_of_operand(self, op):
        v = self.value_of_operand(op)
        if v and v.get("k") == "const":
            return const_val(v["const"])
        return None

    def describe(self, op, depth=0):
        """hashable short description of an operand's origin"""
        v = self.value_of_operand(op)
        return self.describe_value(v, depth)

    def _expand_root(self, s, depth):
        """replace the root local of a canonical place by a description of the call that
        produced it (so `(*_12)` reads `(*call:<Arc as Deref>::deref(&(*_1).x))`)"""
        if depth >= 3:
            return s
        m = LOCAL_RE.search(s)
        if not m:
            return s
        l = int(m.group(1))
        sd = self.single_def(l)
        if sd is not None and sd[0] == "call":
            c = sd[2]
            d = "call:%s(%s)" % (c.name, ",".join(self.describe(a, depth + 1) for a in c.args))
            return s[:m.start()] + d + s[m.end():]
        return s

    def describe_value(self, v, depth=0):
        if v is None:
            return "?"
        k = v["k"]
        if k == "const":
            c = v["const"]
            if "fn_def" in c:
                return "fn:" + (c.get("fn_resolved") or c["fn_def"])
            cv = const_val(c)
            if cv is not None:
                return "const:%r" % (cv,)
            return "const:" + c.get("s", "?")
        if k == "arg":
            # positional: parameter names are free to change
            return "arg:%d" % v["n"]
        if k == "call":
            c = v["call"]
            if depth < 3:
                return "call:%s(%s)" % (c.name, ",".join(self.describe(a, depth + 1)
                                                        for a in c.args))
            return "call:%s" % c.name
        if k == "place":
            return "place:" + self._expand_root(v["s"], depth)
        if k == "rv":
            rv = v["rv"]
            rk = rv["k"]
            if depth >= 4:
                return "rv:" + rk
            if rk == "binop":
                return "(%s %s %s)" % (self.describe(rv["l"], depth + 1), rv["op"],
                                       self.describe(rv["r"], depth + 1))
            if rk == "unop":
                return "(%s %s)" % (rv["op"], self.describe(rv["o"], depth + 1))
            if rk == "cast":
                return "cast<%s>(%s)" % (rv["to"], self.describe(rv["op"], depth + 1))
            if rk == "ref":
                return "&" + self._expand_root(self.cplace(rv["place"]), depth)
            if rk == "aggregate":
                if rv.get("agg") == "adt":
                    return "%s::%s(%s)" % (rv["adt"], rv["variant"],
                                           ",".join(self.describe(o, depth + 1)
                                                    for o in rv["ops"]))
                return "%s(%s)" % (rv.get("agg"), ",".join(self.describe(o, depth + 1)
                                                          for o in rv["ops"]))
            if rk == "discriminant":
                return "discr(%s)" % self.cplace(rv["place"])
            if rk == "use":
                return self.describe(rv["op"], depth + 1)
            return "rv:" + rk
        if k == "multi":
            nm = self.name_of_local(v["local"])
            return "var:%s" % (nm or "_%d" % v["local"])
        return k

    # ---- edge conditions and must-hold path conditions ----------------------------------
    def edge_conds(self, bb):
        """returns {succ_bb: set(conditions)} for the terminator of bb.
        condition = tuple; first element kind:
          ('variant', place, adt, name) ('notvariant', place, adt, frozenset(names))
          ('eq', desc, value) ('ne', desc, frozenset(values))
        each condition is paired with its deps (locals) via self._cond_deps"""
        t = self.term(bb)
        out = defaultdict(set)
        if t["k"] != "switch":
            return out
        p = op_place(t["discr"])
        conds_by_target = defaultdict(list)
        if p is not None and not p["proj"]:
            v = self.value_of_local(p["local"])
        else:
            v = self.value_of_operand(t["discr"])
        deps = set()
        if p is not None:
            deps.add(p["local"])
        if v and v.get("k") == "rv" and v["rv"]["k"] == "discriminant":
            rv = v["rv"]
            ps, d2 = self.canon_place(rv["place"])
            deps |= d2
            names = {x["discr"]: x["name"] for x in rv.get("variants", [])}
            adt = rv.get("adt", "?")
            listed = []
            tcount = defaultdict(int)
            for val, tb in t["targets"]:
                tcount[tb] += 1
            for val, tb in t["targets"]:
                nm = names.get(val, str(val))
                listed.append(nm)
                conds_by_target[tb].append(nm)
            for tb, nms in conds_by_target.items():
                if tb == t["otherwise"]:
                    continue
                if len(nms) == 1:
                    c = ("variant", ps, adt, nms[0])
                else:
                    c = ("variantin", ps, adt, frozenset(nms))
                out[tb].add(c)
                self._cond_deps[c] = frozenset(deps)
            rest = [n for n in names.values() if n not in listed]
            ob = t["otherwise"]
            if not self.is_unreachable_block(ob):
                if ob in conds_by_target:
                    rest = rest + conds_by_target[ob]
                if len(rest) == 1:
                    c = ("variant", ps, adt, rest[0])
                else:
                    c = ("variantin", ps, adt, frozenset(rest))
                out[ob] = {c}
                self._cond_deps[c] = frozenset(deps)
            return out
        desc = self.describe_value(v) if v else "?"
        if v and v.get("k") in ("call", "rv", "place", "multi", "arg"):
            if v.get("local") is not None:
                deps.add(v["local"])
            deps |= self._desc_deps(v)
        by_t = defaultdict(list)
        for val, tb in t["targets"]:
            by_t[tb].append(val)
        allvals = [val for val, _ in t["targets"]]
        is_bool = t.get("discr_ty") == "bool"
        for tb, vals in by_t.items():
            if tb == t["otherwise"]:
                continue
            for_val = vals[0] if len(vals) == 1 else None
            if for_val is not None:
                c = ("eq", desc, bool(for_val) if is_bool else for_val)
            else:
                c = ("in", desc, frozenset(vals))
            out[tb].add(c)
            self._cond_deps[c] = frozenset(deps)
            self._cond_src[c] = v
        ob = t["otherwise"]
        if not self.is_unreachable_block(ob) and ob not in by_t:
            if is_bool and len(allvals) == 1:
                c = ("eq", desc, not bool(allvals[0]))
            else:
                c = ("ne", desc, frozenset(allvals))
            out[ob].add(c)
            self._cond_deps[c] = frozenset(deps)
            self._cond_src[c] = v
        return out

    def _desc_deps(self, v, depth=0):
        deps = set()
        if v is None or depth > 4:
            return deps
        if v.get("local") is not None:
            deps.add(v["local"])
        if v["k"] == "call":
            for a in v["call"].args:
                p = op_place(a)
                if p is not None:
                    deps.add(p["local"])
                    deps |= self._desc_deps(self.value_of_operand(a), depth + 1)
        elif v["k"] == "rv":
            for o in rvalue_operands(v["rv"]):
                p = op_place(o)
                if p is not None:
                    deps.add(p["local"])
                    deps |= self._desc_deps(self.value_of_operand(o), depth + 1)
            if v["rv"]["k"] in ("ref", "discriminant"):
                deps |= self.canon_place(v["rv"]["place"])[1]
        elif v["k"] == "place":
            deps |= self.canon_place(v["place"])[1]
        return deps

    def _assigned_locals(self, bb):
        """(whole locals assigned, canonical strings of projected places stored to) in bb"""
        whole = set()
        parts = set()
        for st in self.blocks[bb]["stmts"]:
            if st["k"] in ("assign", "setdiscr"):
                if st["place"]["proj"]:
                    parts.add(self.cplace(st["place"]))
                else:
                    whole.add(st["place"]["local"])
        t = self.term(bb)
        if t["k"] == "call":
            if t["dest"]["proj"]:
                parts.add(self.cplace(t["dest"]))
            else:
                whole.add(t["dest"]["local"])
        return whole, parts

    def path_conds(self):
        """must-hold conditions at entry of each block: {bb: frozenset(conds)}"""
        if self._conds is not None:
            return self._conds
        order = self.rpo()
        econds = {b: self.edge_conds(b) for b in order}
        assigned = {b: self._assigned_locals(b) for b in order}
        # multi-def locals only matter for kill; single-def temps never get killed wrongly.
        # stores through a projection (`(*_1).state = ..`) kill only the facts that mention
        # that place
        multi = {l for l, ds in self.defs().items()
                 if len([d for d in ds if d[0] != "partial"]) > 1}
        IN = {b: None for b in order}
        IN[0] = frozenset()
        changed = True
        it = 0
        while changed and it < 60:
            changed = False
            it += 1
            for b in order:
                if IN[b] is None:
                    continue
                whole, parts = assigned[b]
                kill = whole & multi
                base = IN[b]
                if kill:
                    base = frozenset(c for c in base
                                     if not (self._cond_deps.get(c, frozenset()) & kill))
                if parts:
                    base = frozenset(c for c in base
                                     if not any(pp in str(c[1]) for pp in parts))
                for s in self.succ(b):
                    new = base | frozenset(econds[b].get(s, ()))
                    if IN.get(s) is None:
                        IN[s] = new
                        changed = True
                    else:
                        m = self._merge_conds(IN[s], new)
                        if m != IN[s]:
                            IN[s] = m
                            changed = True
        self._conds = {b: (IN[b] if IN[b] is not None else frozenset()) for b in order}
        return self._conds

    def _merge_conds(self, a, b):
        """join of two must-hold sets: intersection, except that differing variant facts about
        the same place are widened to a `variantin` fact (or-patterns, shared match arms)"""
        common = a & b
        if common == a or common == b:
            # still try widening only when something was lost
            if common == a and common == b:
                return common

        def vmap(cs):
            out = {}
            for c in cs:
                if c[0] == "variant":
                    out[(c[1], c[2])] = (frozenset([c[3]]), c)
                elif c[0] == "variantin":
                    out[(c[1], c[2])] = (c[3], c)
            return out
        va, vb = vmap(a - common), vmap(b - common)
        extra = set()
        for k in va.keys() & vb.keys():
            names = va[k][0] | vb[k][0]
            c = ("variantin", k[0], k[1], frozenset(names))
            self._cond_deps[c] = (self._cond_deps.get(va[k][1], frozenset())
                                  | self._cond_deps.get(vb[k][1], frozenset()))
            extra.add(c)
        return common | frozenset(extra)

    def conds_at(self, bb):
        return self.path_conds().get(bb, frozenset())

    def cmp_conds_at(self, bb):
        """comparisons that must hold at bb: list of (op, lhs_operand, rhs_operand, truth)"""
        out = []
        for c in self.conds_at(bb):
            if c[0] != "eq" or not isinstance(c[2], bool):
                continue
            v = self._cond_src.get(c)
            if v and v.get("k") == "rv" and v["rv"]["k"] == "binop" and \
                    v["rv"]["op"] in ("Eq", "Ne", "Lt", "Le", "Gt", "Ge"):
                out.append((v["rv"]["op"], v["rv"]["l"], v["rv"]["r"], c[2]))
        return out

    def same_origin(self, a, b):
        """do two operands denote the same value (same constant, same argument, result of the
        same call / statement, or the same canonical place)?"""
        va, vb = self.value_of_operand(a), self.value_of_operand(b)
        if va is None or vb is None or va["k"] != vb["k"]:
            return False
        k = va["k"]
        if k == "const":
            return const_val(va["const"]) == const_val(vb["const"]) and \
                const_val(va["const"]) is not None
        if k == "arg":
            return va["n"] == vb["n"]
        if k == "call":
            return va["call"].bb == vb["call"].bb
        if k == "place":
            return va["s"] == vb["s"]
        if k == "rv":
            return (va["bb"], va["idx"]) == (vb["bb"], vb["idx"])
        if k == "multi":
            return va["local"] == vb["local"]
        return False

    def variants_at(self, bb, place_s, adt=None):
        """set of variants the place may be in at bb (from variant / variantin facts) or None"""
        for c in self.conds_at(bb):
            if c[0] == "variant" and c[1] == place_s and (adt is None or c[2] == adt):
                return {c[3]}
            if c[0] == "variantin" and c[1] == place_s and (adt is None or c[2] == adt):
                return set(c[3])
        return None

    def back_slice_calls(self, op, depth=0, seen=None):
        """names of all calls in the def-use back-slice of an operand (through temporaries,
        fields, refs, casts, binops, aggregates and call arguments)"""
        if seen is None:
            seen = set()
        out = set()
        if depth > 14 or op is None:
            return out
        p = op_place(op)
        if p is None:
            return out
        return self._slice_local(p["local"], depth, seen)

    def _slice_local(self, l, depth, seen):
        out = set()
        if l in seen or depth > 14:
            return out
        seen.add(l)
        for d in self.defs().get(l, []):
            if d[0] == "call":
                c = d[2]
                out.add(c.name)
                if c.callee:
                    out.add(c.callee)
                for a in c.args:
                    out |= self.back_slice_calls(a, depth + 1, seen)
            elif d[0] == "stmt":
                rv = d[3]
                if rv["k"] == "cast":
                    # pseudo-name so that rules can see conversions in a slice
                    out.add("cast:%s:%s->%s" % (rv.get("kind"), rv.get("from"), rv.get("to")))
                for o in rvalue_operands(rv):
                    out |= self.back_slice_calls(o, depth + 1, seen)
                if rv["k"] in ("ref", "discriminant", "rawptr"):
                    out |= self._slice_local(rv["place"]["local"], depth + 1, seen)
            elif d[0] == "partial":
                st = d[3]
                if st.get("k") == "assign":
                    for o in rvalue_operands(st["rv"]):
                        out |= self.back_slice_calls(o, depth + 1, seen)
        return out

    def variant_at(self, bb, place_s, adt=None):
        for c in self.conds_at(bb):
            if c[0] == "variant" and c[1] == place_s and (adt is None or c[2] == adt):
                return c[3]
        return None

    # ---- statements iteration -----------------------------------------------------------
    def assigns(self):
        for b in self.reachable():
            for i, st in enumerate(self.blocks[b]["stmts"]):
                if st["k"] == "assign":
                    yield b, i, st

    def aggregates(self, adt=None, variant=None):
        for b, i, st in self.assigns():
            rv = st["rv"]
            if rv["k"] == "aggregate" and rv.get("agg") == "adt":
                if adt is not None and rv["adt"] != adt:
                    continue
                if variant is not None and rv["variant"] != variant:
                    continue
                yield b, i, st

    def error_codes(self):
        """(bb, ErrorCode variant, span) for each `ErrorCode::X` constructed"""
        out = []
        for b, i, st in self.aggregates("lang::error::ErrorCode"):
            out.append((b, st["rv"]["variant"], st["span"]))
        return out

    def field_stores(self, field):
        """(bb, stmt, value-dict) for every assignment `<place>.field = v`; v is chased through
        temporaries (so `self.state = State::X` shows the aggregate)"""
        out = []
        for b, i, st in self.assigns():
            pl = st["place"]
            if pl["proj"] and pl["proj"][-1]["k"] == "field" and pl["proj"][-1]["name"] == field:
                rv = st["rv"]
                if rv["k"] == "use":
                    v = self.value_of_operand(rv["op"])
                else:
                    v = {"k": "rv", "rv": rv, "bb": b, "idx": i}
                out.append((b, st, v))
        return out

    def stored_variant(self, v):
        """if value v is an ADT aggregate return (adt, variant) else None"""
        if v and v.get("k") == "rv" and v["rv"]["k"] == "aggregate" and \
                v["rv"].get("agg") == "adt":
            return v["rv"]["adt"], v["rv"]["variant"]
        return None

    def field_writes(self, field, base_rx=None):
        """assignments whose destination ends in .field (direct writes)"""
        out = []
        for b, i, st in self.assigns():
            pl = st["place"]
            if pl["proj"] and pl["proj"][-1]["k"] == "field" and pl["proj"][-1]["name"] == field:
                out.append((b, i, st))
        return out


def path_exists_avoiding(fn, start_bb, targets, avoid):
    """is some block in `targets` reachable from start_bb's successors w/o entering `avoid`"""
    seen = set()
    dq = deque(fn.succ(start_bb))
    while dq:
        n = dq.popleft()
        if n in seen or n in avoid:
            continue
        if n in targets:
            return True
        seen.add(n)
        dq.extend(fn.succ(n))
    return False
